// simgo instruments the working tree of gofiber/fiber (and one file of
// fasthttp) for the deterministic simulator. It never writes below /repo:
// rewritten files go to an output directory and a `go build -overlay` file
// maps the originals onto them.
//
//	simgo -out DIR [-dir MODULE_DIR] pkg...            (pkg: import path; "path@file.go,rule+rule" restricts)
//
// Exit status 0 on success, 2 on any trouble (never a verdict).
package main

import (
	"bytes"
	"encoding/json"
	"flag"
	"fmt"
	"go/ast"
	"go/format"
	"go/token"
	"go/types"
	"hash/fnv"
	"os"
	"path/filepath"
	"sort"
	"strconv"
	"strings"

	"golang.org/x/tools/go/ast/astutil"
	"golang.org/x/tools/go/packages"
)

const simrtPath = "verif.local/sim/simrt"

type report struct {
	Files        int               `json:"files"`
	Rewrites     map[string]int    `json:"rewrites"`
	Uncontrolled []string          `json:"uncontrolled"`
	Sites        map[string]string `json:"sites"`
}

var rep = report{Rewrites: map[string]int{}, Sites: map[string]string{}}

func die(format string, args ...any) {
	fmt.Fprintf(os.Stderr, "simgo: "+format+"\n", args...)
	os.Exit(2)
}

type spec struct {
	path  string
	file  string          // restrict to this base name ("" = all)
	rules map[string]bool // nil = all
}

func main() {
	out := flag.String("out", "", "output directory")
	dir := flag.String("dir", ".", "module directory to load from")
	bflags := flag.String("buildflags", "", "extra go list flags (space separated)")
	flag.Parse()
	if *out == "" || flag.NArg() == 0 {
		die("usage: simgo -out DIR pkg...")
	}
	var specs []spec
	var patterns []string
	for _, a := range flag.Args() {
		sp := spec{path: a}
		if i := strings.Index(a, "@"); i >= 0 {
			sp.path = a[:i]
			rest := a[i+1:]
			if j := strings.Index(rest, ","); j >= 0 {
				sp.rules = map[string]bool{}
				for _, r := range strings.Split(rest[j+1:], "+") {
					sp.rules[r] = true
				}
				rest = rest[:j]
			}
			sp.file = rest
		}
		specs = append(specs, sp)
		patterns = append(patterns, sp.path)
	}
	if err := os.MkdirAll(*out, 0o755); err != nil {
		die("%v", err)
	}
	cfg := &packages.Config{
		Mode: packages.NeedName | packages.NeedFiles | packages.NeedCompiledGoFiles | packages.NeedSyntax |
			packages.NeedTypes | packages.NeedTypesInfo | packages.NeedImports | packages.NeedDeps,
		Dir: *dir,
	}
	if *bflags != "" {
		cfg.BuildFlags = strings.Fields(*bflags)
	}
	pkgs, err := packages.Load(cfg, patterns...)
	if err != nil {
		die("load: %v", err)
	}
	byPath := map[string]*packages.Package{}
	for _, p := range pkgs {
		byPath[p.PkgPath] = p
		if len(p.Errors) > 0 {
			die("package %s: %v", p.PkgPath, p.Errors)
		}
	}
	overlay := map[string]string{}
	for _, sp := range specs {
		p := byPath[sp.path]
		if p == nil {
			die("package %s not loaded", sp.path)
		}
		for i, f := range p.Syntax {
			name := p.CompiledGoFiles[i]
			if sp.file != "" && filepath.Base(name) != sp.file {
				continue
			}
			in := &instr{pkg: p, file: f, fname: name, rules: sp.rules}
			if !in.run() {
				continue
			}
			var buf bytes.Buffer
			if err := format.Node(&buf, p.Fset, f); err != nil {
				die("format %s: %v", name, err)
			}
			flat := strings.NewReplacer("/", "_", "@", "_").Replace(strings.TrimPrefix(name, "/"))
			dst := filepath.Join(*out, flat)
			if err := os.WriteFile(dst, buf.Bytes(), 0o644); err != nil {
				die("%v", err)
			}
			overlay[name] = dst
			rep.Files++
		}
	}
	ob, _ := json.MarshalIndent(map[string]any{"Replace": overlay}, "", " ")
	if err := os.WriteFile(filepath.Join(*out, "overlay.json"), ob, 0o644); err != nil {
		die("%v", err)
	}
	sort.Strings(rep.Uncontrolled)
	rb, _ := json.MarshalIndent(rep, "", " ")
	if err := os.WriteFile(filepath.Join(*out, "report.json"), rb, 0o644); err != nil {
		die("%v", err)
	}
}

type instr struct {
	pkg     *packages.Package
	file    *ast.File
	fname   string
	rules   map[string]bool
	changed bool
	stack   []ast.Node
}

func (in *instr) on(rule string) bool { return in.rules == nil || in.rules[rule] }

func (in *instr) pos(n ast.Node) string {
	p := in.pkg.Fset.Position(n.Pos())
	return fmt.Sprintf("%s:%d:%d", shortName(p.Filename), p.Line, p.Column)
}

func shortName(f string) string {
	if i := strings.Index(f, "/repo/"); i >= 0 {
		return f[i+6:]
	}
	if i := strings.LastIndex(f, "/pkg/mod/"); i >= 0 {
		return f[i+9:]
	}
	return f
}

func (in *instr) site(n ast.Node, kind string) ast.Expr {
	p := in.pos(n)
	h := fnv.New32a()
	h.Write([]byte(p))
	v := h.Sum32()
	rep.Sites[strconv.FormatUint(uint64(v), 10)] = kind + " " + p
	rep.Rewrites[kind]++
	in.changed = true
	return &ast.BasicLit{Kind: token.INT, Value: strconv.FormatUint(uint64(v), 10)}
}

func rt(name string) ast.Expr {
	return &ast.SelectorExpr{X: ast.NewIdent("simrt"), Sel: ast.NewIdent(name)}
}

func call(name string, args ...ast.Expr) *ast.CallExpr {
	return &ast.CallExpr{Fun: rt(name), Args: args}
}

func (in *instr) uncontrolled(n ast.Node, what string) {
	rep.Uncontrolled = append(rep.Uncontrolled, what+" "+in.pos(n))
}

// calleeFunc resolves the function or method a call invokes.
func (in *instr) calleeFunc(c *ast.CallExpr) *types.Func {
	var id *ast.Ident
	switch f := ast.Unparen(c.Fun).(type) {
	case *ast.Ident:
		id = f
	case *ast.SelectorExpr:
		id = f.Sel
	case *ast.IndexExpr:
		if s, ok := f.X.(*ast.SelectorExpr); ok {
			id = s.Sel
		} else if i, ok := f.X.(*ast.Ident); ok {
			id = i
		}
	}
	if id == nil {
		return nil
	}
	fn, _ := in.pkg.TypesInfo.Uses[id].(*types.Func)
	return fn
}

// receiver builds the (pointer) expression for the sync object a promoted or
// direct method call operates on.
func (in *instr) receiver(sel *ast.SelectorExpr) ast.Expr {
	info := in.pkg.TypesInfo
	s := info.Selections[sel]
	if s == nil {
		return nil
	}
	x := sel.X
	t := info.TypeOf(x)
	path := s.Index()
	for _, idx := range path[:len(path)-1] {
		if p, ok := t.Underlying().(*types.Pointer); ok {
			t = p.Elem()
		}
		st, ok := t.Underlying().(*types.Struct)
		if !ok {
			return nil
		}
		f := st.Field(idx)
		x = &ast.SelectorExpr{X: x, Sel: ast.NewIdent(f.Name())}
		t = f.Type()
	}
	if _, ok := t.Underlying().(*types.Pointer); ok {
		return x
	}
	return &ast.UnaryExpr{Op: token.AND, X: x}
}

// ifaceReceiver: the interface value a sync.Locker method is called on (possibly through
// embedded fields).
func (in *instr) ifaceReceiver(sel *ast.SelectorExpr) ast.Expr {
	info := in.pkg.TypesInfo
	s := info.Selections[sel]
	if s == nil {
		return nil
	}
	x := sel.X
	t := info.TypeOf(x)
	path := s.Index()
	for _, idx := range path[:len(path)-1] {
		if p, ok := t.Underlying().(*types.Pointer); ok {
			t = p.Elem()
		}
		st, ok := t.Underlying().(*types.Struct)
		if !ok {
			return nil
		}
		f := st.Field(idx)
		x = &ast.SelectorExpr{X: x, Sel: ast.NewIdent(f.Name())}
		t = f.Type()
	}
	return x
}

// methodValue turns a method value of a sync object (mu.Unlock used as a func value) into
// a closure over the simulator operation. The receiver is evaluated when the closure runs.
func (in *instr) methodValue(sel *ast.SelectorExpr, name string) ast.Expr {
	sig, ok := methodValueSig[name]
	if !ok {
		return nil
	}
	recv := in.receiver(sel)
	if strings.HasPrefix(name, "Locker") {
		recv = in.ifaceReceiver(sel)
	}
	if recv == nil {
		return nil
	}
	args := []ast.Expr{recv}
	ft := &ast.FuncType{Params: &ast.FieldList{}}
	if sig[0] != "" {
		var pt ast.Expr = ast.NewIdent(sig[0])
		if sig[0] == "func()" {
			pt = &ast.FuncType{Params: &ast.FieldList{}}
		}
		ft.Params.List = []*ast.Field{{Names: []*ast.Ident{ast.NewIdent("simx")}, Type: pt}}
		args = append(args, ast.NewIdent("simx"))
	}
	args = append(args, in.site(sel, strings.ToLower(name)))
	var body ast.Stmt = &ast.ExprStmt{X: call(name, args...)}
	if sig[1] != "" {
		ft.Results = &ast.FieldList{List: []*ast.Field{{Type: ast.NewIdent(sig[1])}}}
		body = &ast.ReturnStmt{Results: []ast.Expr{call(name, args...)}}
	}
	return &ast.FuncLit{Type: ft, Body: &ast.BlockStmt{List: []ast.Stmt{body}}}
}

var syncOps = map[string]string{
	"(*sync.Mutex).Lock":       "MutexLock",
	"(*sync.Mutex).Unlock":     "MutexUnlock",
	"(*sync.Mutex).TryLock":    "MutexTryLock",
	"(*sync.RWMutex).Lock":     "RWLock",
	"(*sync.RWMutex).Unlock":   "RWUnlock",
	"(*sync.RWMutex).RLock":    "RWRLock",
	"(*sync.RWMutex).RUnlock":  "RWRUnlock",
	"(*sync.RWMutex).TryLock":  "RWTryLock",
	"(*sync.RWMutex).TryRLock": "RWTryRLock",
	"(*sync.Pool).Get":         "PoolGet",
	"(*sync.Pool).Put":         "PoolPut",
	"(*sync.Cond).Wait":        "CondWait",
	"(*sync.Cond).Signal":      "CondSignal",
	"(*sync.Cond).Broadcast":   "CondBroadcast",
	"(*sync.Once).Do":          "OnceDo",
	"(sync.Locker).Lock":       "LockerLock",
	"(sync.Locker).Unlock":     "LockerUnlock",
	"(*sync.Map).Range":        "SyncMapRange",
}

// opsWithoutSite take no trailing site argument
var opsWithoutSite = map[string]bool{"SyncMapRange": true}

// methodValueSig: parameters / result of the closure that replaces a method value
var methodValueSig = map[string][2]string{ // name -> {param type, result type}
	"MutexLock": {"", ""}, "MutexUnlock": {"", ""}, "RWLock": {"", ""}, "RWUnlock": {"", ""}, "RWRLock": {"", ""}, "RWRUnlock": {"", ""},
	"MutexTryLock": {"", "bool"}, "RWTryLock": {"", "bool"}, "RWTryRLock": {"", "bool"},
	"PoolGet": {"", "any"}, "PoolPut": {"any", ""},
	"CondWait": {"", ""}, "CondSignal": {"", ""}, "CondBroadcast": {"", ""},
	"OnceDo": {"func()", ""}, "LockerLock": {"", ""}, "LockerUnlock": {"", ""},
}

var onceFuncs = map[string]string{
	"sync.OnceFunc":   "OnceFunc",
	"sync.OnceValue":  "OnceValue",
	"sync.OnceValues": "OnceValues",
}

var blockingCalls = map[string]bool{
	"time.Sleep":             true,
	"(*sync.WaitGroup).Wait": true,
}

var randFuncs = map[string]string{
	"math/rand/v2.Uint64": "RandUint64",
	"math/rand.Uint64":    "RandUint64",
}

func (in *instr) parent(n int) ast.Node {
	if len(in.stack) <= n {
		return nil
	}
	return in.stack[len(in.stack)-1-n]
}

func inList(c *astutil.Cursor) bool { return c.Index() >= 0 }

func (in *instr) resumeStmt(n ast.Node) ast.Stmt {
	return &ast.ExprStmt{X: call("Resume", in.site(n, "resume"))}
}

func isRecv(e ast.Expr) bool {
	u, ok := ast.Unparen(e).(*ast.UnaryExpr)
	return ok && u.Op == token.ARROW
}

func (in *instr) run() bool {
	info := in.pkg.TypesInfo
	pre := func(c *astutil.Cursor) bool {
		in.stack = append(in.stack, c.Node())
		return true
	}
	post := func(c *astutil.Cursor) bool {
		n := c.Node()
		in.stack = in.stack[:len(in.stack)-1] // now parent(0) is n's parent
		switch n := n.(type) {
		case *ast.SelectorExpr:
			// method values of sync objects cannot be redirected
			if s := info.Selections[n]; s != nil && s.Kind() == types.MethodVal {
				if fn, ok := s.Obj().(*types.Func); ok {
					if _, hit := syncOps[fn.FullName()]; hit {
						if pc, ok := in.parent(0).(*ast.CallExpr); !ok || ast.Unparen(pc.Fun) != ast.Expr(n) {
							if pp, ok := in.parent(0).(*ast.ParenExpr); ok {
								if pc, ok := in.parent(1).(*ast.CallExpr); ok && ast.Unparen(pc.Fun) == ast.Expr(pp) {
									return true
								}
							}
							cl := in.methodValue(n, syncOps[fn.FullName()])
							if cl == nil {
								die("%s: method value %s has no instrumentation rule", in.pos(n), fn.FullName())
							}
							c.Replace(cl)
						}
					}
				}
			}
		case *ast.CallExpr:
			fn := in.calleeFunc(n)
			if fn == nil {
				return true
			}
			full := fn.FullName()
			if r, ok := onceFuncs[full]; ok && in.on("mutex") {
				// sync.OnceFunc(f) -> simrt.OnceFunc(f) (explicit type arguments are kept)
				in.site(n, "oncefunc")
				switch f := ast.Unparen(n.Fun).(type) {
				case *ast.SelectorExpr:
					n.Fun = rt(r)
				case *ast.IndexExpr:
					f.X = rt(r)
				case *ast.IndexListExpr:
					f.X = rt(r)
				}
				return true
			}
			if full == "github.com/gofiber/utils/v2.StartTimeStampUpdater" && len(n.Args) == 0 {
				// the updater goroutine itself is a stub of the harness (its coarse clock daemon); that the
				// code asks for it is recorded, and utils.Timestamp() only moves once somebody has
				in.site(n, "tsupdater")
				n.Fun = rt("StartTimestampUpdater")
				return true
			}
			if (full == "time.AfterFunc" || full == "context.AfterFunc") && len(n.Args) == 2 && in.on("chan") {
				n.Args[1] = call("TimerFunc", n.Args[1], in.site(n, "timerfunc"))
				return true
			}
			if name, ok := syncOps[full]; ok {
				isPool := strings.HasPrefix(name, "Pool")
				if (isPool && !in.on("pool")) || (!isPool && !in.on("mutex")) {
					return true
				}
				sel, ok := ast.Unparen(n.Fun).(*ast.SelectorExpr)
				if !ok {
					die("%s: cannot instrument %s", in.pos(n), full)
				}
				recv := in.receiver(sel)
				if strings.HasPrefix(name, "Locker") {
					recv = in.ifaceReceiver(sel)
				}
				if recv == nil {
					die("%s: cannot resolve receiver of %s", in.pos(n), full)
				}
				if name == "PoolGet" && strings.HasPrefix(in.pkg.PkgPath, "github.com/gofiber/fiber/") {
					name = "PoolGetY"
				}
				args := append([]ast.Expr{recv}, n.Args...)
				st := in.site(n, strings.ToLower(name))
				if !opsWithoutSite[name] {
					args = append(args, st)
				}
				c.Replace(call(name, args...))
				return true
			}
			if fn.Pkg() != nil && in.on("pool") && strings.HasPrefix(in.pkg.PkgPath, "github.com/gofiber/fiber/") {
				pp, nm := fn.Pkg().Path(), fn.Name()
				if sig, ok := fn.Type().(*types.Signature); ok && sig.Recv() == nil && sig.Results().Len() == 1 &&
					((pp == "github.com/valyala/fasthttp" && strings.HasPrefix(nm, "Acquire")) || (pp == "github.com/valyala/bytebufferpool" && nm == "Get")) {
					switch in.parent(0).(type) {
					case *ast.DeferStmt, *ast.GoStmt:
						return true
					}
					c.Replace(call("A", n, in.site(n, "acquire")))
					return true
				}
			}
			if r, ok := randFuncs[full]; ok && in.on("rand") {
				in.site(n, "rand")
				c.Replace(call(r))
				return true
			}
			if fn.Pkg() != nil && (fn.Pkg().Path() == "math/rand" || fn.Pkg().Path() == "math/rand/v2") {
				if sig, ok := fn.Type().(*types.Signature); ok && sig.Recv() == nil {
					in.uncontrolled(n, "math/rand "+full)
				}
			}
			if full == "github.com/gofiber/utils/v2.Timestamp" && in.on("atomic") {
				// the coarse clock is an atomic load in a dependency: a tick may land right after any read
				c.Replace(call("A", n, in.site(n, "clockread")))
				return true
			}
			if fn.Pkg() != nil && fn.Pkg().Path() == "sync/atomic" && in.on("atomic") {
				switch in.parent(0).(type) {
				case *ast.DeferStmt, *ast.GoStmt:
					return true
				}
				sig := fn.Type().(*types.Signature)
				switch sig.Results().Len() {
				case 1:
					c.Replace(call("A", n, in.site(n, "atomic")))
				case 0:
					// handled at the enclosing ExprStmt
				}
				return true
			}
		case *ast.ExprStmt:
			if ce, ok := n.X.(*ast.CallExpr); ok {
				if fn := in.calleeFunc(ce); fn != nil {
					if fn.Pkg() != nil && fn.Pkg().Path() == "sync/atomic" && in.on("atomic") {
						if sig := fn.Type().(*types.Signature); sig.Results().Len() == 0 && inList(c) {
							c.InsertAfter(&ast.ExprStmt{X: call("Yield", in.site(n, "atomic"))})
						}
					}
					if blockingCalls[fn.FullName()] && in.on("chan") {
						if inList(c) {
							c.InsertAfter(in.resumeStmt(n))
						} else {
							in.uncontrolled(n, "blocking call outside a statement list")
						}
					}
				}
			}
			if isRecv(n.X) && in.on("chan") {
				if _, comm := in.parent(0).(*ast.CommClause); comm {
					return true
				}
				if inList(c) {
					c.InsertAfter(in.resumeStmt(n))
				} else {
					in.uncontrolled(n, "receive outside a statement list")
				}
			}
		case *ast.AssignStmt:
			if len(n.Rhs) == 1 && isRecv(n.Rhs[0]) && in.on("chan") {
				if _, comm := in.parent(0).(*ast.CommClause); comm {
					return true
				}
				if inList(c) {
					c.InsertAfter(in.resumeStmt(n))
				} else {
					in.uncontrolled(n, "receive outside a statement list")
				}
			}
		case *ast.UnaryExpr:
			if n.Op == token.ARROW && in.on("chan") {
				// statement-level forms are handled above; nested ones are wrapped
				p := in.parent(0)
				if pp, ok := p.(*ast.ParenExpr); ok {
					_ = pp
					p = in.parent(1)
				}
				switch ps := p.(type) {
				case *ast.ExprStmt:
					return true
				case *ast.AssignStmt:
					if len(ps.Rhs) == 1 && ast.Unparen(ps.Rhs[0]) == ast.Expr(n) {
						return true
					}
				}
				c.Replace(call("R", n, in.site(n, "resume")))
			}
		case *ast.SendStmt:
			if !in.on("chan") {
				return true
			}
			if _, comm := in.parent(0).(*ast.CommClause); comm {
				return true
			}
			if inList(c) {
				c.InsertAfter(in.resumeStmt(n))
			} else {
				in.uncontrolled(n, "send outside a statement list")
			}
		case *ast.SelectStmt:
			if !in.on("chan") {
				return true
			}
			for _, cl := range n.Body.List {
				cc := cl.(*ast.CommClause)
				cc.Body = append([]ast.Stmt{in.resumeStmt(cc)}, cc.Body...)
			}
		case *ast.RangeStmt:
			t := info.TypeOf(n.X)
			if t == nil {
				return true
			}
			switch u := t.Underlying().(type) {
			case *types.Chan:
				if !in.on("chan") {
					return true
				}
				n.Body.List = append([]ast.Stmt{in.resumeStmt(n)}, n.Body.List...)
				if inList(c) {
					c.InsertAfter(in.resumeStmt(n.Body))
				}
			case *types.Map:
				if !in.on("maprange") {
					return true
				}
				in.mapRange(c, n, u)
			}
		case *ast.GoStmt:
			if in.on("go") {
				in.goStmt(c, n)
			}
		}
		return true
	}
	astutil.Apply(in.file, pre, post)
	if !in.changed {
		return false
	}
	// new nodes carry no positions, so the printer would scatter comments
	// into them; only directives and the file header are kept
	var keep []*ast.CommentGroup
	for _, g := range in.file.Comments {
		k := g.End() < in.file.Package
		for _, cm := range g.List {
			if strings.HasPrefix(cm.Text, "//go:") && !strings.HasPrefix(cm.Text, "//go:generate") {
				k = true
			}
		}
		if k {
			keep = append(keep, g)
		}
	}
	in.file.Comments = keep
	astutil.AddNamedImport(in.pkg.Fset, in.file, "simrt", simrtPath)
	// "sync", "time" and "context" may have lost their last use to a rewritten call (sync.OnceFunc, ...)
	for _, p := range []string{"math/rand/v2", "math/rand", "sync", "context"} {
		if !astutil.UsesImport(in.file, p) {
			astutil.DeleteImport(in.pkg.Fset, in.file, p)
		}
	}
	return true
}

func pureOperand(e ast.Expr) bool {
	switch x := ast.Unparen(e).(type) {
	case *ast.Ident:
		return true
	case *ast.SelectorExpr:
		return pureOperand(x.X)
	case *ast.StarExpr:
		return pureOperand(x.X)
	}
	return false
}

func (in *instr) mapRange(c *astutil.Cursor, n *ast.RangeStmt, m *types.Map) {
	kb, ok := m.Key().Underlying().(*types.Basic)
	ordered := ok && kb.Info()&(types.IsOrdered) != 0
	if !ordered || n.Tok == token.ASSIGN || !pureOperand(n.X) {
		in.uncontrolled(n, "map range ("+m.Key().String()+")")
		return
	}
	key := ast.NewIdent("simk")
	if id, ok := n.Key.(*ast.Ident); ok && id.Name != "_" {
		key = ast.NewIdent(id.Name)
	}
	var pre []ast.Stmt
	val := ast.NewIdent("_")
	if id, ok := n.Value.(*ast.Ident); ok && id.Name != "_" {
		val = ast.NewIdent(id.Name)
	}
	pre = append(pre,
		&ast.AssignStmt{
			Lhs: []ast.Expr{val, ast.NewIdent("simok")},
			Tok: token.DEFINE,
			Rhs: []ast.Expr{&ast.IndexExpr{X: n.X, Index: ast.NewIdent(key.Name)}},
		},
		&ast.IfStmt{
			Cond: &ast.UnaryExpr{Op: token.NOT, X: ast.NewIdent("simok")},
			Body: &ast.BlockStmt{List: []ast.Stmt{&ast.BranchStmt{Tok: token.CONTINUE}}},
		},
	)
	if val.Name != "_" {
		// keep "declared and not used" away if the body ignores the value
		pre = append(pre, &ast.AssignStmt{Lhs: []ast.Expr{ast.NewIdent("_")}, Tok: token.ASSIGN, Rhs: []ast.Expr{ast.NewIdent(val.Name)}})
	}
	if key.Name != "simk" {
		pre = append(pre, &ast.AssignStmt{Lhs: []ast.Expr{ast.NewIdent("_")}, Tok: token.ASSIGN, Rhs: []ast.Expr{ast.NewIdent(key.Name)}})
	}
	in.site(n, "maprange")
	n.Body.List = append(pre, n.Body.List...)
	n.Value = key
	n.Key = ast.NewIdent("_")
	n.Tok = token.DEFINE
	n.X = call("MapKeys", n.X)
}

func (in *instr) goStmt(c *astutil.Cursor, g *ast.GoStmt) {
	info := in.pkg.TypesInfo
	in.site(g, "go")
	callExpr := g.Call
	if fl, ok := callExpr.Fun.(*ast.FuncLit); ok && len(callExpr.Args) == 0 {
		c.Replace(&ast.ExprStmt{X: call("Go", fl)})
		return
	}
	var stmts []ast.Stmt
	newCall := &ast.CallExpr{Fun: callExpr.Fun, Ellipsis: callExpr.Ellipsis}
	needTmp := true
	switch f := ast.Unparen(callExpr.Fun).(type) {
	case *ast.Ident:
		if _, ok := info.Uses[f].(*types.Func); ok {
			needTmp = false
		}
	case *ast.SelectorExpr:
		if _, ok := info.Uses[f.Sel].(*types.Func); ok && info.Selections[f] == nil {
			needTmp = false // package-qualified function
		}
	}
	if needTmp {
		stmts = append(stmts, &ast.AssignStmt{Lhs: []ast.Expr{ast.NewIdent("simfn")}, Tok: token.DEFINE, Rhs: []ast.Expr{callExpr.Fun}})
		newCall.Fun = ast.NewIdent("simfn")
	}
	for i, a := range callExpr.Args {
		if tv, ok := info.Types[a]; ok && tv.Value != nil {
			newCall.Args = append(newCall.Args, a)
			continue
		}
		name := ast.NewIdent("simarg" + strconv.Itoa(i))
		stmts = append(stmts, &ast.AssignStmt{Lhs: []ast.Expr{name}, Tok: token.DEFINE, Rhs: []ast.Expr{a}})
		newCall.Args = append(newCall.Args, ast.NewIdent(name.Name))
	}
	stmts = append(stmts, &ast.ExprStmt{X: call("Go", &ast.FuncLit{
		Type: &ast.FuncType{Params: &ast.FieldList{}},
		Body: &ast.BlockStmt{List: []ast.Stmt{&ast.ExprStmt{X: newCall}}},
	})})
	c.Replace(&ast.BlockStmt{List: stmts})
}
