package simrt
