package simrt

import "math/rand/v2"

// Tape is the single source of every choice of a run. In search mode values
// come from one PCG stream seeded by the run seed; in replay mode they come
// from a recorded list (missing entries read as 0, the "plain" choice).
// Draw records the reduced value, so a recorded tape replays exactly and any
// edited tape still replays to *some* valid run.
type Tape struct {
	rng    *rand.PCG
	replay []uint32
	isRep  bool
	Rec    []uint32
}

func NewTape(seed uint64) *Tape {
	return &Tape{rng: rand.NewPCG(seed, seed^0x9e3779b97f4a7c15)}
}

func ReplayTape(vals []uint32) *Tape {
	return &Tape{replay: vals, isRep: true}
}

// Draw returns a value in [0,n). n<=1 consumes nothing.
func (t *Tape) Draw(n int) int {
	if n <= 1 {
		return 0
	}
	var v uint32
	if t.isRep {
		if len(t.Rec) < len(t.replay) {
			v = t.replay[len(t.Rec)] % uint32(n)
		}
	} else {
		v = uint32(t.rng.Uint64() % uint64(n))
	}
	t.Rec = append(t.Rec, v)
	return int(v)
}

// Chance is true with probability permille/1000; a zero draw is always false.
func (t *Tape) Chance(permille int) bool {
	if permille <= 0 {
		return false
	}
	return t.Draw(1000) >= 1000-permille
}

// Pick returns one of the given values; index 0 is the plain choice.
func Pick[T any](t *Tape, vals ...T) T {
	return vals[t.Draw(len(vals))]
}

// Range returns a value in [lo,hi].
func (t *Tape) Range(lo, hi int) int {
	if hi <= lo {
		return lo
	}
	return lo + t.Draw(hi-lo+1)
}

func (t *Tape) Len() int { return len(t.Rec) }
