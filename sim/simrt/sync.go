package simrt

import (
	"cmp"
	"fmt"
	"reflect"
	"slices"
	"sync"
	"unsafe"
)

// ---- shadow mutexes ----------------------------------------------------------------
//
// While a run is active the real mutex is never touched: ownership lives in
// Sim.locks, so the scheduler always knows who waits for what, a parked lock
// holder can never wedge synctest.Wait, and killing tasks at shutdown cannot
// trip the runtime's "unlock of unlocked mutex" throw.

func (s *Sim) lockFor(p unsafe.Pointer) *lockState {
	ls := s.locks[p]
	if ls == nil {
		ls = &lockState{}
		s.locks[p] = ls
	}
	return ls
}

func (s *Sim) lockW(p unsafe.Pointer, site uint32) {
	t := s.enter()
	if t == nil {
		return
	}
	s.yieldLocked(t, site)
	ls := s.lockFor(p)
	for ls.writer != nil || ls.readers > 0 {
		ls.wwait++
		t.waitOn = p
		s.Counters["lock_wait"]++
		s.parkLocked(t, stLockWait)
		ls.wwait--
	}
	ls.writer = t
	s.mu.Unlock()
}

func (s *Sim) tryLockW(p unsafe.Pointer, site uint32) bool {
	t := s.enter()
	if t == nil {
		return true
	}
	s.yieldLocked(t, site)
	ls := s.lockFor(p)
	ok := ls.writer == nil && ls.readers == 0
	if ok {
		ls.writer = t
	}
	s.mu.Unlock()
	return ok
}

func (s *Sim) wakeWaitersLocked(p unsafe.Pointer) {
	for _, w := range s.tasks {
		if w.st == stLockWait && w.waitOn == p {
			w.st = stParked
			w.resumed = false
		}
	}
}

func (s *Sim) unlockW(p unsafe.Pointer, site uint32) {
	t := s.enter()
	if t == nil {
		return
	}
	ls := s.lockFor(p)
	if ls.writer == nil {
		s.failLocked("sim.unlock-unlocked", "Unlock of a mutex that is not locked (fatal error in a real process)")
		s.mu.Unlock()
		return
	}
	ls.writer = nil
	s.wakeWaitersLocked(p)
	s.yieldLocked(t, site)
	s.mu.Unlock()
}

func (s *Sim) lockR(p unsafe.Pointer, site uint32) {
	t := s.enter()
	if t == nil {
		return
	}
	s.yieldLocked(t, site)
	ls := s.lockFor(p)
	// like sync.RWMutex, a waiting writer blocks new readers
	for ls.writer != nil || ls.wwait > 0 {
		t.waitOn = p
		s.Counters["lock_wait"]++
		s.parkLocked(t, stLockWait)
	}
	ls.readers++
	s.mu.Unlock()
}

func (s *Sim) tryLockR(p unsafe.Pointer, site uint32) bool {
	t := s.enter()
	if t == nil {
		return true
	}
	s.yieldLocked(t, site)
	ls := s.lockFor(p)
	ok := ls.writer == nil && ls.wwait == 0
	if ok {
		ls.readers++
	}
	s.mu.Unlock()
	return ok
}

func (s *Sim) unlockR(p unsafe.Pointer, site uint32) {
	t := s.enter()
	if t == nil {
		return
	}
	ls := s.lockFor(p)
	if ls.readers == 0 {
		s.failLocked("sim.unlock-unlocked", "RUnlock of a mutex that is not read-locked (fatal error in a real process)")
		s.mu.Unlock()
		return
	}
	ls.readers--
	if ls.readers == 0 {
		s.wakeWaitersLocked(p)
	}
	s.yieldLocked(t, site)
	s.mu.Unlock()
}

func MutexLock(m *sync.Mutex, site uint32) {
	if s := cur.Load(); s != nil {
		s.lockW(unsafe.Pointer(m), site)
		return
	}
	m.Lock()
}

func MutexUnlock(m *sync.Mutex, site uint32) {
	if s := cur.Load(); s != nil {
		s.unlockW(unsafe.Pointer(m), site)
		return
	}
	m.Unlock()
}

func MutexTryLock(m *sync.Mutex, site uint32) bool {
	if s := cur.Load(); s != nil {
		return s.tryLockW(unsafe.Pointer(m), site)
	}
	return m.TryLock()
}

func RWLock(m *sync.RWMutex, site uint32) {
	if s := cur.Load(); s != nil {
		s.lockW(unsafe.Pointer(m), site)
		return
	}
	m.Lock()
}

func RWUnlock(m *sync.RWMutex, site uint32) {
	if s := cur.Load(); s != nil {
		s.unlockW(unsafe.Pointer(m), site)
		return
	}
	m.Unlock()
}

func RWRLock(m *sync.RWMutex, site uint32) {
	if s := cur.Load(); s != nil {
		s.lockR(unsafe.Pointer(m), site)
		return
	}
	m.RLock()
}

func RWRUnlock(m *sync.RWMutex, site uint32) {
	if s := cur.Load(); s != nil {
		s.unlockR(unsafe.Pointer(m), site)
		return
	}
	m.RUnlock()
}

func RWTryLock(m *sync.RWMutex, site uint32) bool {
	if s := cur.Load(); s != nil {
		return s.tryLockW(unsafe.Pointer(m), site)
	}
	return m.TryLock()
}

func RWTryRLock(m *sync.RWMutex, site uint32) bool {
	if s := cur.Load(); s != nil {
		return s.tryLockR(unsafe.Pointer(m), site)
	}
	return m.TryRLock()
}

// ---- simulated sync.Pool ------------------------------------------------------------

// PoolGet hands out one of the most recently released objects (which one is
// a tape choice) or a new one. Pools start empty in every run.
func PoolGet(p *sync.Pool, site uint32) any {
	s := cur.Load()
	if s == nil {
		return p.Get()
	}
	s.mu.Lock()
	if s.shutdown {
		s.mu.Unlock()
		return p.Get()
	}
	var v any
	lst := s.pools[p]
	if n := len(lst); n > 0 {
		w := n
		if w > 4 {
			w = 4
		}
		i := n - 1 - s.Tape.Draw(w)
		v = lst[i]
		copy(lst[i:], lst[i+1:])
		lst[n-1] = nil
		s.pools[p] = lst[:n-1]
		s.Counters["pool_reuse"]++
		if i != n-1 {
			s.Counters["pool_reuse_not_newest"]++
		}
		// an object that was put back twice comes out twice: if the first taker still has it, two owners
		// now share what each of them takes for its own
		if isPointer(v) {
			if _, out := s.poolOut[v]; out {
				s.Counters["pool_object_with_two_owners"]++
				s.failLocked("sim.pooled-object-has-two-owners", fmt.Sprintf("a %T that one task took from its sync.Pool and has not put back was handed to a second taker: it had been put into the pool twice, both owners now work on the same object", v))
			}
		}
	}
	if v != nil && isPointer(v) {
		if s.poolOut == nil {
			s.poolOut = map[any]struct{}{}
		}
		s.poolOut[v] = struct{}{}
	}
	s.mu.Unlock()
	if v == nil && p.New != nil {
		v = p.New()
	}
	return v
}

// isPointer: a pointer to something that occupies memory (pointers to zero-size values all compare equal)
func isPointer(v any) bool {
	if v == nil {
		return false
	}
	t := reflect.TypeOf(v)
	return t.Kind() == reflect.Pointer && t.Elem().Size() > 0
}

// PoolGetY is PoolGet with a preemption point in front. It is used for the pool sites of the repository's
// own (fully instrumented) packages only: there a task never holds a real lock while it parks. Code between
// two lock operations is not atomic either, and taking an object from a pool is where "prepare a shared
// thing, then use it" sequences typically start.
func PoolGetY(p *sync.Pool, site uint32) any {
	Yield(site)
	return PoolGet(p, site)
}

func PoolPut(p *sync.Pool, v any, site uint32) {
	s := cur.Load()
	if s == nil {
		p.Put(v)
		return
	}
	if v == nil {
		return
	}
	s.mu.Lock()
	if s.shutdown {
		s.mu.Unlock()
		return
	}
	// half of the runs scribble over byte buffers that are handed back to a pool, as the next user of
	// the buffer is free to do at any moment: a view of a released buffer that is still in use shows
	if !s.poisonInit {
		s.poisonInit = true
		s.poison = PoisonHook != nil && s.Tape.Chance(500)
	}
	if s.poison && PoisonHook(v) {
		s.Counters["pool_buffer_poisoned"]++
	}
	if isPointer(v) {
		delete(s.poolOut, v)
		// put back a second time while the pool still holds it: the next two takers get the same object,
		// each taking it for its own (with requests in flight at the same time, whatever the object carries
		// - a session, a context, a buffer - is shared between them)
		for _, x := range s.pools[p] {
			if x == v {
				s.Counters["pool_object_put_twice"]++
				s.failLocked("sim.pooled-object-put-twice", fmt.Sprintf("a %T was put into its sync.Pool while the pool already held it: the next two takers will work on the same object", v))
				break
			}
		}
	}
	if s.Tape.Chance(s.cfg.PoolDropPermille) {
		s.Counters["pool_drop"]++
	} else {
		s.pools[p] = append(s.pools[p], v)
	}
	s.mu.Unlock()
}

// PoisonHook overwrites the spare bytes of a pooled buffer object (set by the harness, which knows
// the buffer types; simrt itself must not import them). Reports whether v was such an object.
var PoisonHook func(v any) bool

// ResetPools empties every simulated pool (a brand-new process, as far as
// pooled objects are concerned).
func (s *Sim) ResetPools() {
	s.mu.Lock()
	s.pools = map[*sync.Pool][]any{}
	s.poolOut = nil
	s.mu.Unlock()
}

// ---- seeded map iteration order -----------------------------------------------------

// MapKeys returns the keys of m sorted and then permuted from the tape
// (all-zero draws keep the sorted order).
func MapKeys[M ~map[K]V, K cmp.Ordered, V any](m M) []K {
	keys := make([]K, 0, len(m))
	for k := range m {
		keys = append(keys, k)
	}
	slices.Sort(keys)
	s := cur.Load()
	if s == nil || len(keys) < 2 {
		return keys
	}
	s.mu.Lock()
	if !s.shutdown {
		s.Counters["map_order"]++
		for i := len(keys) - 1; i > 0; i-- {
			j := i - s.Tape.Draw(i+1)
			keys[i], keys[j] = keys[j], keys[i]
		}
	}
	s.mu.Unlock()
	return keys
}

// ---- tape-backed math/rand ----------------------------------------------------------

func RandUint64() uint64 {
	s := cur.Load()
	if s == nil {
		return 0x9e3779b97f4a7c15
	}
	s.mu.Lock()
	v := uint64(s.Tape.Draw(1<<16)) | uint64(s.Tape.Draw(1<<16))<<16 | uint64(s.Tape.Draw(1<<16))<<32 | uint64(s.Tape.Draw(1<<16))<<48
	s.mu.Unlock()
	return v
}

// ---- sync.Locker, sync.Cond, sync.Once, sync.Map.Range --------------------------------
//
// Rules for constructs the pinned tree hardly uses but an edited tree may: they keep the
// invariant that no instrumented code ever blocks on (or even touches) a real mutex
// while a run is active.

// lockerPtr resolves a sync.Locker to the shadow-lock key and whether it is the read side.
func lockerPtr(l sync.Locker) (p unsafe.Pointer, read, ok bool) {
	switch m := l.(type) {
	case *sync.Mutex:
		return unsafe.Pointer(m), false, true
	case *sync.RWMutex:
		return unsafe.Pointer(m), false, true
	}
	v := reflect.ValueOf(l)
	if v.Kind() == reflect.Pointer && v.Type().String() == "*sync.rlocker" {
		return v.UnsafePointer(), true, true // (*RWMutex).RLocker(): same address as the RWMutex
	}
	return nil, false, false
}

// LockerLock / LockerUnlock: calls through the sync.Locker interface.
func LockerLock(l sync.Locker, site uint32) {
	if s := cur.Load(); s != nil {
		if p, read, ok := lockerPtr(l); ok {
			if read {
				s.lockR(p, site)
			} else {
				s.lockW(p, site)
			}
			return
		}
	}
	l.Lock()
}

func LockerUnlock(l sync.Locker, site uint32) {
	if s := cur.Load(); s != nil {
		if p, read, ok := lockerPtr(l); ok {
			if read {
				s.unlockR(p, site)
			} else {
				s.unlockW(p, site)
			}
			return
		}
	}
	l.Unlock()
}

// CondWait: release the (shadow) lock, wait for Signal/Broadcast (FIFO like the runtime's
// notify list), re-acquire.
func CondWait(c *sync.Cond, site uint32) {
	s := cur.Load()
	if s == nil {
		c.Wait()
		return
	}
	p, read, ok := lockerPtr(c.L)
	if !ok {
		panic("simrt: sync.Cond with a Locker that is not a sync.Mutex/RWMutex")
	}
	t := s.enter()
	if t == nil {
		return
	}
	ls := s.lockFor(p)
	if read {
		if ls.readers == 0 {
			s.failLocked("sim.unlock-unlocked", "Cond.Wait with the read lock not held")
		} else {
			ls.readers--
		}
	} else {
		if ls.writer == nil {
			s.failLocked("sim.unlock-unlocked", "Cond.Wait with the lock not held (fatal error in a real process)")
		}
		ls.writer = nil
	}
	if ls.writer == nil && ls.readers == 0 {
		s.wakeWaitersLocked(p)
	}
	cp := unsafe.Pointer(c)
	s.conds[cp] = append(s.conds[cp], t)
	t.waitOn = cp
	t.condWait = true
	s.Counters["cond_wait"]++
	for t.condWait {
		s.parkLocked(t, stLockWait)
	}
	s.mu.Unlock()
	if read {
		s.lockR(p, site)
	} else {
		s.lockW(p, site)
	}
}

func (s *Sim) condWake(c *sync.Cond, all bool, site uint32) {
	t := s.enter()
	if t == nil {
		return
	}
	cp := unsafe.Pointer(c)
	q := s.conds[cp]
	n := 0
	for len(q) > 0 && (all || n == 0) {
		w := q[0]
		q = q[1:]
		w.condWait = false
		if w.st == stLockWait {
			w.st = stParked
			w.resumed = false
		}
		n++
	}
	if len(q) == 0 {
		delete(s.conds, cp)
	} else {
		s.conds[cp] = q
	}
	s.yieldLocked(t, site)
	s.mu.Unlock()
}

func CondSignal(c *sync.Cond, site uint32) {
	if s := cur.Load(); s != nil {
		s.condWake(c, false, site)
		return
	}
	c.Signal()
}

func CondBroadcast(c *sync.Cond, site uint32) {
	if s := cur.Load(); s != nil {
		s.condWake(c, true, site)
		return
	}
	c.Broadcast()
}

// OnceDo serialises callers through a shadow lock keyed by the Once, so that a callback
// that parks never leaves another task blocked on the Once's real mutex.
func OnceDo(o *sync.Once, f func(), site uint32) {
	s := cur.Load()
	if s == nil {
		o.Do(f)
		return
	}
	p := unsafe.Pointer(o)
	s.lockW(p, site)
	defer s.unlockOnce(p)
	o.Do(f)
}

func (s *Sim) unlockOnce(p unsafe.Pointer) {
	s.mu.Lock()
	if s.shutdown {
		s.mu.Unlock()
		return
	}
	if ls := s.locks[p]; ls != nil {
		ls.writer = nil
		s.wakeWaitersLocked(p)
	}
	s.mu.Unlock()
}

// OnceFunc and friends: like the sync functions, on a shadow-locked Once.
func OnceFunc(f func()) func() {
	var o sync.Once
	g := sync.OnceFunc(f) // keeps the panic-replay semantics of the original
	return func() { onceCall(&o, g) }
}

func onceCall(o *sync.Once, g func()) {
	s := cur.Load()
	if s == nil {
		g()
		return
	}
	p := unsafe.Pointer(o)
	s.lockW(p, 3)
	defer s.unlockOnce(p)
	g()
}

func OnceValue[T any](f func() T) func() T {
	var o sync.Once
	g := sync.OnceValue(f)
	return func() (v T) { onceCall(&o, func() { v = g() }); return v }
}

func OnceValues[T1, T2 any](f func() (T1, T2)) func() (T1, T2) {
	var o sync.Once
	g := sync.OnceValues(f)
	return func() (a T1, b T2) { onceCall(&o, func() { a, b = g() }); return a, b }
}

// SyncMapRange visits a snapshot of the map in a seeded order (keys ordered by their
// printed form, then permuted from the tape).
func SyncMapRange(m *sync.Map, f func(k, v any) bool) {
	s := cur.Load()
	if s == nil {
		m.Range(f)
		return
	}
	type kv struct {
		k, v any
		s    string
	}
	var all []kv
	m.Range(func(k, v any) bool {
		all = append(all, kv{k, v, fmt.Sprintf("%T:%v", k, k)})
		return true
	})
	slices.SortStableFunc(all, func(a, b kv) int { return cmp.Compare(a.s, b.s) })
	if len(all) > 1 {
		s.mu.Lock()
		if !s.shutdown {
			s.Counters["map_order"]++
			for i := len(all) - 1; i > 0; i-- {
				j := i - s.Tape.Draw(i+1)
				all[i], all[j] = all[j], all[i]
			}
		}
		s.mu.Unlock()
	}
	for _, e := range all {
		if v, ok := m.Load(e.k); ok { // still present (Range may miss or see concurrent changes; either is legal)
			if !f(e.k, v) {
				return
			}
		}
	}
}

// TimerFunc wraps the callback of time.AfterFunc / context.AfterFunc: the timer goroutine
// parks until the scheduler hands it the token.
func TimerFunc(f func(), site uint32) func() {
	return func() {
		Resume(site)
		f()
	}
}

// ---- utils.StartTimeStampUpdater ------------------------------------------------------

// TimestampHook is set by the harness: called when code under test asks for the coarse clock updater
// for the first time in a run.
var TimestampHook func(s *Sim)

// StartTimestampUpdater stands in for utils.StartTimeStampUpdater() in instrumented code. The updater
// goroutine is the harness's simulated daemon; here it is only noted that the code asked for one.
func StartTimestampUpdater() {
	s := cur.Load()
	if s == nil {
		return
	}
	s.mu.Lock()
	first := !s.tsStarted
	s.tsStarted = true
	s.mu.Unlock()
	if first && TimestampHook != nil {
		TimestampHook(s)
	}
}

// TimestampUpdaterStarted reports whether the code under test has asked for the coarse clock updater in this run.
func (s *Sim) TimestampUpdaterStarted() bool {
	s.mu.Lock()
	defer s.mu.Unlock()
	return s.tsStarted
}
