package simrt

import (
	"cmp"
	"slices"
	"sync"
	"unsafe"
)

// ---- shadow mutexes ----------------------------------------------------------------
//
// While a run is active the real mutex is never touched: ownership lives in
// Sim.locks, so the scheduler always knows who waits for what, a parked lock
// holder can never wedge synctest.Wait, and killing tasks at shutdown cannot
// trip the runtime's "unlock of unlocked mutex" throw.

func (s *Sim) lockFor(p unsafe.Pointer) *lockState {
	ls := s.locks[p]
	if ls == nil {
		ls = &lockState{}
		s.locks[p] = ls
	}
	return ls
}

func (s *Sim) lockW(p unsafe.Pointer, site uint32) {
	t := s.enter()
	if t == nil {
		return
	}
	s.yieldLocked(t, site)
	ls := s.lockFor(p)
	for ls.writer != nil || ls.readers > 0 {
		ls.wwait++
		t.waitOn = p
		s.Counters["lock_wait"]++
		s.parkLocked(t, stLockWait)
		ls.wwait--
	}
	ls.writer = t
	s.mu.Unlock()
}

func (s *Sim) tryLockW(p unsafe.Pointer, site uint32) bool {
	t := s.enter()
	if t == nil {
		return true
	}
	s.yieldLocked(t, site)
	ls := s.lockFor(p)
	ok := ls.writer == nil && ls.readers == 0
	if ok {
		ls.writer = t
	}
	s.mu.Unlock()
	return ok
}

func (s *Sim) wakeWaitersLocked(p unsafe.Pointer) {
	for _, w := range s.tasks {
		if w.st == stLockWait && w.waitOn == p {
			w.st = stParked
			w.resumed = false
		}
	}
}

func (s *Sim) unlockW(p unsafe.Pointer, site uint32) {
	t := s.enter()
	if t == nil {
		return
	}
	ls := s.lockFor(p)
	if ls.writer == nil {
		s.failLocked("sim.unlock-unlocked", "Unlock of a mutex that is not locked (fatal error in a real process)")
		s.mu.Unlock()
		return
	}
	ls.writer = nil
	s.wakeWaitersLocked(p)
	s.yieldLocked(t, site)
	s.mu.Unlock()
}

func (s *Sim) lockR(p unsafe.Pointer, site uint32) {
	t := s.enter()
	if t == nil {
		return
	}
	s.yieldLocked(t, site)
	ls := s.lockFor(p)
	// like sync.RWMutex, a waiting writer blocks new readers
	for ls.writer != nil || ls.wwait > 0 {
		t.waitOn = p
		s.Counters["lock_wait"]++
		s.parkLocked(t, stLockWait)
	}
	ls.readers++
	s.mu.Unlock()
}

func (s *Sim) tryLockR(p unsafe.Pointer, site uint32) bool {
	t := s.enter()
	if t == nil {
		return true
	}
	s.yieldLocked(t, site)
	ls := s.lockFor(p)
	ok := ls.writer == nil && ls.wwait == 0
	if ok {
		ls.readers++
	}
	s.mu.Unlock()
	return ok
}

func (s *Sim) unlockR(p unsafe.Pointer, site uint32) {
	t := s.enter()
	if t == nil {
		return
	}
	ls := s.lockFor(p)
	if ls.readers == 0 {
		s.failLocked("sim.unlock-unlocked", "RUnlock of a mutex that is not read-locked (fatal error in a real process)")
		s.mu.Unlock()
		return
	}
	ls.readers--
	if ls.readers == 0 {
		s.wakeWaitersLocked(p)
	}
	s.yieldLocked(t, site)
	s.mu.Unlock()
}

func MutexLock(m *sync.Mutex, site uint32) {
	if s := cur.Load(); s != nil {
		s.lockW(unsafe.Pointer(m), site)
		return
	}
	m.Lock()
}

func MutexUnlock(m *sync.Mutex, site uint32) {
	if s := cur.Load(); s != nil {
		s.unlockW(unsafe.Pointer(m), site)
		return
	}
	m.Unlock()
}

func MutexTryLock(m *sync.Mutex, site uint32) bool {
	if s := cur.Load(); s != nil {
		return s.tryLockW(unsafe.Pointer(m), site)
	}
	return m.TryLock()
}

func RWLock(m *sync.RWMutex, site uint32) {
	if s := cur.Load(); s != nil {
		s.lockW(unsafe.Pointer(m), site)
		return
	}
	m.Lock()
}

func RWUnlock(m *sync.RWMutex, site uint32) {
	if s := cur.Load(); s != nil {
		s.unlockW(unsafe.Pointer(m), site)
		return
	}
	m.Unlock()
}

func RWRLock(m *sync.RWMutex, site uint32) {
	if s := cur.Load(); s != nil {
		s.lockR(unsafe.Pointer(m), site)
		return
	}
	m.RLock()
}

func RWRUnlock(m *sync.RWMutex, site uint32) {
	if s := cur.Load(); s != nil {
		s.unlockR(unsafe.Pointer(m), site)
		return
	}
	m.RUnlock()
}

func RWTryLock(m *sync.RWMutex, site uint32) bool {
	if s := cur.Load(); s != nil {
		return s.tryLockW(unsafe.Pointer(m), site)
	}
	return m.TryLock()
}

func RWTryRLock(m *sync.RWMutex, site uint32) bool {
	if s := cur.Load(); s != nil {
		return s.tryLockR(unsafe.Pointer(m), site)
	}
	return m.TryRLock()
}

// ---- simulated sync.Pool ------------------------------------------------------------

// PoolGet hands out one of the most recently released objects (which one is
// a tape choice) or a new one. Pools start empty in every run.
func PoolGet(p *sync.Pool, site uint32) any {
	s := cur.Load()
	if s == nil {
		return p.Get()
	}
	s.mu.Lock()
	if s.shutdown {
		s.mu.Unlock()
		return p.Get()
	}
	var v any
	lst := s.pools[p]
	if n := len(lst); n > 0 {
		w := n
		if w > 4 {
			w = 4
		}
		i := n - 1 - s.Tape.Draw(w)
		v = lst[i]
		copy(lst[i:], lst[i+1:])
		lst[n-1] = nil
		s.pools[p] = lst[:n-1]
		s.Counters["pool_reuse"]++
		if i != n-1 {
			s.Counters["pool_reuse_not_newest"]++
		}
	}
	s.mu.Unlock()
	if v == nil && p.New != nil {
		v = p.New()
	}
	return v
}

func PoolPut(p *sync.Pool, v any, site uint32) {
	s := cur.Load()
	if s == nil {
		p.Put(v)
		return
	}
	if v == nil {
		return
	}
	s.mu.Lock()
	if s.shutdown {
		s.mu.Unlock()
		return
	}
	if s.Tape.Chance(s.cfg.PoolDropPermille) {
		s.Counters["pool_drop"]++
	} else {
		s.pools[p] = append(s.pools[p], v)
	}
	s.mu.Unlock()
}

// ResetPools empties every simulated pool (a brand-new process, as far as
// pooled objects are concerned).
func (s *Sim) ResetPools() {
	s.mu.Lock()
	s.pools = map[*sync.Pool][]any{}
	s.mu.Unlock()
}

// ---- seeded map iteration order -----------------------------------------------------

// MapKeys returns the keys of m sorted and then permuted from the tape
// (all-zero draws keep the sorted order).
func MapKeys[M ~map[K]V, K cmp.Ordered, V any](m M) []K {
	keys := make([]K, 0, len(m))
	for k := range m {
		keys = append(keys, k)
	}
	slices.Sort(keys)
	s := cur.Load()
	if s == nil || len(keys) < 2 {
		return keys
	}
	s.mu.Lock()
	if !s.shutdown {
		s.Counters["map_order"]++
		for i := len(keys) - 1; i > 0; i-- {
			j := i - s.Tape.Draw(i+1)
			keys[i], keys[j] = keys[j], keys[i]
		}
	}
	s.mu.Unlock()
	return keys
}

// ---- tape-backed math/rand ----------------------------------------------------------

func RandUint64() uint64 {
	s := cur.Load()
	if s == nil {
		return 0x9e3779b97f4a7c15
	}
	s.mu.Lock()
	v := uint64(s.Tape.Draw(1<<16)) | uint64(s.Tape.Draw(1<<16))<<16 | uint64(s.Tape.Draw(1<<16))<<32 | uint64(s.Tape.Draw(1<<16))<<48
	s.mu.Unlock()
	return v
}
