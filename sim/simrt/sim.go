// Package simrt is the run-time half of the deterministic simulator: tasks,
// a seeded scheduler on top of testing/synctest, shadow mutexes, simulated
// sync.Pool, seeded map iteration order and the choice tape. The functions
// that instrumented fiber code calls (MutexLock, PoolGet, Go, Resume, ...)
// degrade to the plain operation when no run is active.
package simrt

import (
	"fmt"
	"hash/fnv"
	"runtime"
	"runtime/debug"
	"strings"
	"sync"
	"sync/atomic"
	"testing"
	"testing/synctest"
	"time"
	"unsafe"
)

type state uint8

const (
	stRunning  state = iota // released by the scheduler (or blocked outside the simulator)
	stParked                // waiting for the scheduler, runnable
	stLockWait              // waiting for a shadow mutex, not runnable
	stDone
)

// Task is a goroutine known to the scheduler.
type Task struct {
	ID       int
	Name     string
	gid      uint64
	wake     chan struct{}
	st       state
	released bool
	resumed  bool // parked by Resume (woke from a blocking operation), not by preemption
	waitOn   unsafe.Pointer
	condWait bool // waiting in a simulated sync.Cond
	tracked  bool // created through Go: completion is known
}

// Config bounds and biases one run.
type Config struct {
	PreemptPermille  int           // probability of a context switch at a yield point
	PoolDropPermille int           // probability that a Put is dropped (as a GC would)
	MaxSteps         int           // scheduler steps per run
	MaxSimTime       time.Duration // simulated time per run (no-progress bound)
	KeepLog          bool
	DrainTime        time.Duration // simulated time to let pass at shutdown (background goroutines of dependencies)
}

// Failure is one oracle violation (or simulator-level finding) of a run.
type Failure struct {
	Oracle string `json:"oracle"`
	Detail string `json:"detail"`
}

type lockState struct {
	writer  *Task
	readers int
	wwait   int
}

// Sim is the state of one run.
type Sim struct {
	mu                 sync.Mutex
	Tape               *Tape
	cfg                Config
	tasks              []*Task
	byGid              map[uint64]*Task
	notify             chan struct{}
	shutdown           bool
	abort              bool
	main               *Task
	last               *Task
	steps              int
	seq                uint64
	start              time.Time
	end                time.Time
	locks              map[unsafe.Pointer]*lockState
	pools              map[*sync.Pool][]any
	poolOut            map[any]struct{} // pooled objects (pointers) taken and not yet put back
	tsStarted          bool             // the code under test called utils.StartTimeStampUpdater
	conds              map[unsafe.Pointer][]*Task
	poison, poisonInit bool
	schedSig           uint64
	switches           int
	// targeted preemption: in some runs one yield site (the hotK-th distinct site
	// met while preemption is on) switches tasks half of the time, so that narrow
	// windows at one particular place are hit even when the rest of the run is calm
	hotInit bool
	hotK    int
	siteIdx map[uint32]int

	logHash  uint64
	Log      []string
	Failures []Failure
	nfail    int
	Counters map[string]int
	Leftover int
}

var cur atomic.Pointer[Sim]

// Current returns the active run or nil.
func Current() *Sim { return cur.Load() }

func goid() uint64 {
	var buf [48]byte
	n := runtime.Stack(buf[:], false)
	// "goroutine 123 [running]:..."
	var id uint64
	for i := 10; i < n; i++ {
		c := buf[i]
		if c < '0' || c > '9' {
			break
		}
		id = id*10 + uint64(c-'0')
	}
	return id
}

// Run executes main as task 0 of a fresh bubble under the scheduler and
// returns the finished run. All state the run touches must be created
// inside main.
func Run(t *testing.T, tape *Tape, cfg Config, main func(s *Sim)) *Sim {
	if cfg.MaxSteps == 0 {
		cfg.MaxSteps = 200000
	}
	if cfg.MaxSimTime == 0 {
		cfg.MaxSimTime = 30 * time.Minute
	}
	s := &Sim{
		Tape:     tape,
		cfg:      cfg,
		byGid:    map[uint64]*Task{},
		locks:    map[unsafe.Pointer]*lockState{},
		pools:    map[*sync.Pool][]any{},
		conds:    map[unsafe.Pointer][]*Task{},
		Counters: map[string]int{},
		logHash:  14695981039346656037,
		schedSig: 14695981039346656037,
	}
	func() {
		defer func() {
			if r := recover(); r != nil {
				msg := fmt.Sprint(r)
				// synctest reports goroutines that are still blocked when the
				// bubble's root returns; they are counted, not a verdict.
				s.mu.Lock()
				s.Counters["bubble_exit_panic"]++
				if s.cfg.KeepLog {
					s.Log = append(s.Log, "bubble exit: "+msg)
				}
				s.mu.Unlock()
			}
			cur.Store(nil)
		}()
		synctest.Test(t, func(t *testing.T) {
			s.notify = make(chan struct{}, 1)
			s.start = time.Now()
			cur.Store(s)
			s.main = s.spawn("main", func() { main(s) })
			s.schedule()
			s.end = time.Now()
			s.stop()
			cur.Store(nil)
		})
	}()
	return s
}

func (s *Sim) kick() {
	select {
	case s.notify <- struct{}{}:
	default:
	}
}

// spawn creates a tracked task; called with the token or from the root.
func (s *Sim) spawn(name string, f func()) *Task {
	s.mu.Lock()
	t := &Task{ID: len(s.tasks), Name: name, wake: make(chan struct{}, 1), st: stParked, tracked: true}
	s.tasks = append(s.tasks, t)
	s.mu.Unlock()
	go func() {
		gid := goid()
		s.mu.Lock()
		t.gid = gid
		s.byGid[gid] = t
		s.mu.Unlock()
		defer func() {
			r := recover()
			s.mu.Lock()
			if r != nil {
				s.failLocked("panic", fmt.Sprintf("task %s: %v\n%s", t.Name, r, trimStack(debug.Stack())))
			}
			t.st = stDone
			delete(s.byGid, gid)
			s.mu.Unlock()
			s.kick()
		}()
		s.kick()
		<-t.wake
		s.mu.Lock()
		dead := s.shutdown
		s.mu.Unlock()
		if dead {
			return
		}
		f()
	}()
	return t
}

// trimStack keeps the function names of a stack trace only: goroutine numbers,
// argument values and addresses differ from run to run and must stay out of the
// (hashed) event log.
func trimStack(b []byte) string {
	var out []string
	for _, ln := range strings.Split(string(b), "\n") {
		if ln == "" || ln[0] == '\t' || strings.HasPrefix(ln, "goroutine ") || strings.HasPrefix(ln, "created by ") {
			continue
		}
		if i := strings.LastIndexByte(ln, '('); i > 0 {
			ln = ln[:i]
		}
		out = append(out, ln)
		if len(out) >= 14 {
			break
		}
	}
	return strings.Join(out, " < ")
}

// self returns the calling task, adopting unknown goroutines. mu held.
func (s *Sim) selfLocked() *Task {
	gid := goid()
	t := s.byGid[gid]
	if t == nil {
		t = &Task{ID: len(s.tasks), Name: "adopted", gid: gid, wake: make(chan struct{}, 1), st: stRunning}
		s.tasks = append(s.tasks, t)
		s.byGid[gid] = t
	}
	return t
}

// parkLocked blocks the task until the scheduler releases it. mu is held on
// entry and on return. During shutdown the goroutine exits instead.
func (s *Sim) parkLocked(t *Task, st state) {
	t.st = st
	t.released = false
	s.mu.Unlock()
	s.kick()
	<-t.wake
	s.mu.Lock()
	if s.shutdown {
		s.mu.Unlock()
		runtime.Goexit()
	}
}

// enter makes sure the caller holds the run token. Returns with mu held, or
// nil (mu not held) when the run is shutting down and the operation should
// degrade to a no-op on simulator state.
func (s *Sim) enter() *Task {
	s.mu.Lock()
	if s.shutdown {
		s.mu.Unlock()
		return nil
	}
	t := s.selfLocked()
	for !t.released {
		s.parkLocked(t, stParked)
	}
	return t
}

func (s *Sim) sig(a, b uint64) {
	h := s.schedSig
	h ^= a
	h *= 1099511628211
	h ^= b
	h *= 1099511628211
	s.schedSig = h
}

// yieldLocked is a preemption point.
func (s *Sim) yieldLocked(t *Task, site uint32) {
	s.steps++
	if s.steps > s.cfg.MaxSteps && !s.abort {
		s.failLocked("sim.steplimit", fmt.Sprintf("more than %d scheduler steps", s.cfg.MaxSteps))
		s.abort = true
		s.parkLocked(t, stParked)
		return
	}
	p := s.cfg.PreemptPermille
	if p > 0 {
		if !s.hotInit {
			s.hotInit = true
			s.hotK = -1
			s.siteIdx = map[uint32]int{}
			if s.Tape.Chance(400) {
				s.hotK = s.Tape.Draw(64)
			}
		}
		if s.hotK >= 0 {
			idx, ok := s.siteIdx[site]
			if !ok {
				idx = len(s.siteIdx)
				s.siteIdx[site] = idx
			}
			if idx == s.hotK {
				p = 500
			}
		}
	}
	if s.Tape.Chance(p) {
		s.switches++
		s.sig(uint64(t.ID), uint64(site))
		t.resumed = false
		s.parkLocked(t, stParked)
	}
}

func (s *Sim) schedule() {
	timer := time.NewTimer(time.Hour)
	defer timer.Stop()
	deadline := s.start.Add(s.cfg.MaxSimTime)
	var run []*Task
	for {
		synctest.Wait()
		s.mu.Lock()
		if s.main.st == stDone || s.abort {
			s.mu.Unlock()
			return
		}
		run = run[:0]
		for _, t := range s.tasks {
			t.released = false
			if t.st == stParked {
				run = append(run, t)
			}
		}
		if len(run) == 0 {
			now := time.Now()
			if !now.Before(deadline) {
				s.failLocked("sim.noprogress", "workload not finished within the simulated time bound: "+s.describeLocked())
				s.mu.Unlock()
				return
			}
			s.mu.Unlock()
			timer.Reset(deadline.Sub(now))
			select {
			case <-s.notify:
				timer.Stop()
			case <-timer.C:
			}
			continue
		}
		s.steps++
		if s.steps > s.cfg.MaxSteps {
			s.failLocked("sim.steplimit", fmt.Sprintf("more than %d scheduler steps", s.cfg.MaxSteps))
			s.mu.Unlock()
			return
		}
		var pick *Task
		if l := s.last; l != nil && l.st == stParked && l.resumed && len(run) > 1 {
			// the task that was running merely woke from a blocking call:
			// keep it running unless the tape asks for a switch
			if !s.Tape.Chance(s.cfg.PreemptPermille) {
				pick = l
			}
		}
		if pick == nil {
			if len(run) > 1 {
				// order: last-running first, then by id (already by id)
				if l := s.last; l != nil && l.st == stParked {
					for i, t := range run {
						if t == l {
							copy(run[1:i+1], run[:i])
							run[0] = l
							break
						}
					}
				}
			}
			pick = run[s.Tape.Draw(len(run))]
		}
		if pick != s.last {
			s.sig(uint64(pick.ID)|1<<32, 0)
		}
		pick.released = true
		pick.resumed = false
		pick.st = stRunning
		s.last = pick
		s.mu.Unlock()
		pick.wake <- struct{}{}
	}
}

func (s *Sim) describeLocked() string {
	out := ""
	for _, t := range s.tasks {
		if t.st == stDone {
			continue
		}
		st := "blocked"
		switch t.st {
		case stParked:
			st = "runnable"
		case stLockWait:
			st = "lockwait"
		}
		out += fmt.Sprintf("[%d %s %s]", t.ID, t.Name, st)
	}
	return out
}

// stop ends the run: every parked task is released one at a time and exits
// through runtime.Goexit; goroutines blocked on timers get simulated time to
// reach a Resume.
func (s *Sim) stop() {
	s.mu.Lock()
	s.shutdown = true
	s.mu.Unlock()
	defer func() {
		if s.cfg.DrainTime > 0 {
			time.Sleep(s.cfg.DrainTime)
			synctest.Wait()
		}
	}()
	for round := 0; round < 40; round++ {
		synctest.Wait()
		s.mu.Lock()
		var victim *Task
		alive := 0
		for _, t := range s.tasks {
			if t.st == stDone {
				continue
			}
			if victim == nil && (t.st == stParked || t.st == stLockWait) {
				victim = t
			}
			if t.tracked {
				alive++
			}
		}
		if victim != nil {
			victim.st = stRunning
		}
		s.mu.Unlock()
		if victim != nil {
			victim.wake <- struct{}{}
			round--
			continue
		}
		if alive == 0 {
			return
		}
		// daemons blocked on long tickers (a storage GC every 15 minutes) need more and
		// more simulated time to reach their next Resume
		d := 1500 * time.Millisecond << uint(min(round, 13))
		time.Sleep(d)
	}
	s.mu.Lock()
	for _, t := range s.tasks {
		if t.st != stDone && t.tracked {
			s.Leftover++
		}
	}
	s.mu.Unlock()
}

// ---- API for harness and engines -------------------------------------------------

// Go starts f as a task. The spawning task may be preempted right after.
func Go(f func()) { GoNamed("go", f) }

func GoNamed(name string, f func()) {
	s := cur.Load()
	if s == nil {
		go f()
		return
	}
	t := s.enter()
	if t == nil {
		return // shutting down: nothing new starts
	}
	s.mu.Unlock()
	s.spawn(name, f)
	s.mu.Lock()
	s.yieldLocked(t, 1)
	s.mu.Unlock()
}

// Yield is a plain preemption point.
func Yield(site uint32) {
	s := cur.Load()
	if s == nil {
		return
	}
	t := s.enter()
	if t == nil {
		return
	}
	s.yieldLocked(t, site)
	s.mu.Unlock()
}

// A wraps the result of an atomic operation: preemption point after it.
func A[T any](v T, site uint32) T {
	Yield(site)
	return v
}

// Resume must follow every operation that may have blocked outside the
// simulator (channel operation, select case, Sleep, WaitGroup.Wait): the
// goroutine parks until the scheduler hands it the token again.
func Resume(site uint32) {
	s := cur.Load()
	if s == nil {
		return
	}
	s.mu.Lock()
	if s.shutdown {
		s.mu.Unlock()
		runtime.Goexit()
	}
	t := s.selfLocked()
	t.resumed = true
	s.parkLocked(t, stParked)
	s.mu.Unlock()
}

// R wraps a receive expression: v := simrt.R(<-ch, site).
func R[T any](v T, site uint32) T {
	Resume(site)
	return v
}

// Sleep advances simulated time for the caller only.
func Sleep(d time.Duration) {
	if d > 0 {
		time.Sleep(d)
	}
	Resume(2)
}

// TaskID identifies the calling task (stable within a run).
func TaskID() int {
	s := cur.Load()
	if s == nil {
		return -1
	}
	s.mu.Lock()
	defer s.mu.Unlock()
	return s.selfLocked().ID
}

// Stamp returns the next value of the global event sequence.
func (s *Sim) Stamp() uint64 {
	s.mu.Lock()
	s.seq++
	v := s.seq
	s.mu.Unlock()
	return v
}

// Fail records an oracle violation.
func (s *Sim) Fail(oracle, format string, args ...any) {
	s.mu.Lock()
	s.failLocked(oracle, fmt.Sprintf(format, args...))
	s.mu.Unlock()
}

func (s *Sim) failLocked(oracle, detail string) {
	s.nfail++
	// the first failure of every oracle id is kept (so that a frequent known finding
	// cannot crowd out a different violation of the same run)
	dup := false
	for _, f := range s.Failures {
		if f.Oracle == oracle {
			dup = true
			break
		}
	}
	if !dup && len(s.Failures) < 48 {
		s.Failures = append(s.Failures, Failure{oracle, detail})
	}
	s.logLocked("FAIL " + oracle + " " + detail)
}

// Failed reports whether any failure was recorded.
func (s *Sim) Failed() bool {
	s.mu.Lock()
	defer s.mu.Unlock()
	return s.nfail > 0
}

// Abort ends the run early (after a failure that makes continuing pointless).
func (s *Sim) Abort() {
	s.mu.Lock()
	s.abort = true
	s.mu.Unlock()
}

// Count bumps a probe / fault counter.
func (s *Sim) Count(name string) {
	s.mu.Lock()
	s.Counters[name]++
	s.mu.Unlock()
}

func (s *Sim) CountN(name string, n int) {
	s.mu.Lock()
	s.Counters[name] += n
	s.mu.Unlock()
}

// Logf appends to the event log (hash always, text only when kept). It never
// draws from the tape.
func (s *Sim) Logf(format string, args ...any) {
	s.mu.Lock()
	s.logLocked(fmt.Sprintf(format, args...))
	s.mu.Unlock()
}

func (s *Sim) logLocked(line string) {
	h := fnv.New64a()
	var b [8]byte
	for i := 0; i < 8; i++ {
		b[i] = byte(s.logHash >> (8 * i))
	}
	h.Write(b[:])
	h.Write([]byte(line))
	s.logHash = h.Sum64()
	if s.cfg.KeepLog && len(s.Log) < 20000 {
		s.Log = append(s.Log, fmt.Sprintf("%6d %s", s.steps, line))
	}
}

// Draw and friends: tape access for the task holding the token.
func (s *Sim) Draw(n int) int {
	s.mu.Lock()
	v := s.Tape.Draw(n)
	s.mu.Unlock()
	return v
}

func (s *Sim) Chance(permille int) bool {
	s.mu.Lock()
	v := s.Tape.Chance(permille)
	s.mu.Unlock()
	return v
}

func (s *Sim) Range(lo, hi int) int {
	s.mu.Lock()
	v := s.Tape.Range(lo, hi)
	s.mu.Unlock()
	return v
}

func PickS[T any](s *Sim, vals ...T) T { return vals[s.Draw(len(vals))] }

// SetPreempt changes the preemption probability (e.g. zero during set-up).
func (s *Sim) SetPreempt(permille int) {
	s.mu.Lock()
	s.cfg.PreemptPermille = permille
	s.mu.Unlock()
}

func (s *Sim) SetPoolDrop(permille int) {
	s.mu.Lock()
	s.cfg.PoolDropPermille = permille
	s.mu.Unlock()
}

// Tracing reports whether the event log text is kept (replay / minimised runs):
// verbose per-call logging is done only then.
func (s *Sim) Tracing() bool { return s.cfg.KeepLog }

// Results.
func (s *Sim) Steps() int             { return s.steps }
func (s *Sim) Switches() int          { return s.switches }
func (s *Sim) LogHash() uint64        { return s.logHash }
func (s *Sim) SchedSig() uint64       { return s.schedSig }
func (s *Sim) SimTime() time.Duration { return s.end.Sub(s.start) }
func (s *Sim) NumFailures() int       { return s.nfail }
func (s *Sim) NumTasks() int          { return len(s.tasks) }
func (s *Sim) Elapsed() time.Duration { return time.Since(s.start) }
