package simrt

import (
	"sync"
	"testing"
	"time"
)

func workload(s *Sim) {
	var mu sync.Mutex
	var rw sync.RWMutex
	shared := 0
	var wg sync.WaitGroup
	pool := &sync.Pool{New: func() any { return new(int) }}
	for i := 0; i < 4; i++ {
		wg.Add(1)
		GoNamed("w", func() {
			defer wg.Done()
			for j := 0; j < 5; j++ {
				MutexLock(&mu, 10)
				v := shared
				Yield(11)
				shared = v + 1
				MutexUnlock(&mu, 12)
				p := PoolGet(pool, 13)
				RWRLock(&rw, 14)
				Sleep(time.Duration(s.Draw(3)) * time.Second)
				RWRUnlock(&rw, 15)
				PoolPut(pool, p, 16)
				RWLock(&rw, 17)
				s.Logf("w%d j%d shared=%d t=%v", i, j, shared, time.Now().Unix())
				RWUnlock(&rw, 18)
			}
		})
	}
	GoNamed("daemon", func() {
		for {
			Sleep(time.Second)
			s.Logf("tick %d", time.Now().Unix())
		}
	})
	wg.Wait()
	Resume(3)
	if shared != 20 {
		s.Fail("lost-update", "shared=%d", shared)
	}
}

func TestDeterminism(t *testing.T) {
	for seed := uint64(1); seed <= 50; seed++ {
		a := Run(t, NewTape(seed), Config{PreemptPermille: 300, PoolDropPermille: 50}, workload)
		b := Run(t, NewTape(seed), Config{PreemptPermille: 300, PoolDropPermille: 50}, workload)
		c := Run(t, ReplayTape(a.Tape.Rec), Config{PreemptPermille: 300, PoolDropPermille: 50}, workload)
		if a.LogHash() != b.LogHash() || a.LogHash() != c.LogHash() || a.SchedSig() != c.SchedSig() {
			t.Fatalf("seed %d: nondeterministic %x %x %x", seed, a.LogHash(), b.LogHash(), c.LogHash())
		}
		if a.Failed() {
			t.Fatalf("seed %d: %v", seed, a.Failures)
		}
		if a.Leftover != 0 {
			t.Fatalf("leftover %d", a.Leftover)
		}
	}
}

func TestSpeed(t *testing.T) {
	start := time.Now()
	n := 2000
	steps := 0
	sigs := map[uint64]bool{}
	for seed := uint64(1); seed <= uint64(n); seed++ {
		a := Run(t, NewTape(seed), Config{PreemptPermille: 150}, workload)
		steps += a.Steps()
		sigs[a.SchedSig()] = true
	}
	el := time.Since(start)
	t.Logf("%d runs in %v: %v/run, %d steps, %v/step, %d distinct schedules", n, el, el/time.Duration(n), steps, el/time.Duration(steps), len(sigs))
}

func TestFindsRace(t *testing.T) {
	bad := func(s *Sim) {
		shared := 0
		var wg sync.WaitGroup
		for i := 0; i < 3; i++ {
			wg.Add(1)
			GoNamed("w", func() {
				defer wg.Done()
				v := shared
				Yield(11)
				shared = v + 1
			})
		}
		wg.Wait()
		Resume(3)
		if shared != 3 {
			s.Fail("lost-update", "shared=%d", shared)
		}
	}
	found := 0
	for seed := uint64(1); seed <= 200; seed++ {
		if Run(t, NewTape(seed), Config{PreemptPermille: 200}, bad).Failed() {
			found++
		}
	}
	if found == 0 {
		t.Fatal("race not found")
	}
	t.Logf("found in %d/200", found)
}

func TestDeadlock(t *testing.T) {
	dl := func(s *Sim) {
		var a, b sync.Mutex
		var wg sync.WaitGroup
		wg.Add(2)
		GoNamed("x", func() {
			defer wg.Done()
			MutexLock(&a, 1)
			Yield(2)
			MutexLock(&b, 3)
			MutexUnlock(&b, 4)
			MutexUnlock(&a, 5)
		})
		GoNamed("y", func() {
			defer wg.Done()
			MutexLock(&b, 1)
			Yield(2)
			MutexLock(&a, 3)
			MutexUnlock(&a, 4)
			MutexUnlock(&b, 5)
		})
		wg.Wait()
		Resume(3)
	}
	found := 0
	for seed := uint64(1); seed <= 100; seed++ {
		r := Run(t, NewTape(seed), Config{PreemptPermille: 300, MaxSimTime: time.Minute}, dl)
		if r.Failed() {
			found++
			if r.Failures[0].Oracle != "sim.noprogress" {
				t.Fatal(r.Failures)
			}
		}
	}
	if found == 0 {
		t.Fatal("deadlock not found")
	}
	t.Logf("deadlock in %d/100", found)
}

// A bounded queue on sync.Cond, a sync.Once and a sync.Locker, all through the simulator's rules.
func condWorkload(s *Sim) {
	var mu sync.Mutex
	cond := sync.NewCond(&mu)
	var once sync.Once
	var l sync.Locker = &mu
	inits := 0
	var q []int
	var wg sync.WaitGroup
	got := 0
	for i := 0; i < 3; i++ {
		wg.Add(1)
		GoNamed("producer", func() {
			defer wg.Done()
			OnceDo(&once, func() { Yield(20); inits++ }, 21)
			for j := 0; j < 4; j++ {
				LockerLock(l, 22)
				for len(q) >= 2 {
					CondWait(cond, 23)
				}
				q = append(q, i*10+j)
				CondBroadcast(cond, 24)
				LockerUnlock(l, 25)
			}
		})
	}
	wg.Add(1)
	GoNamed("consumer", func() {
		defer wg.Done()
		for got < 12 {
			MutexLock(&mu, 26)
			for len(q) == 0 {
				CondWait(cond, 27)
			}
			q = q[1:]
			got++
			CondBroadcast(cond, 28)
			MutexUnlock(&mu, 29)
		}
	})
	wg.Wait()
	Resume(3)
	if got != 12 || inits != 1 || len(q) != 0 {
		s.Fail("cond", "got=%d inits=%d queue=%d", got, inits, len(q))
	}
}

func TestCondOnceLocker(t *testing.T) {
	for seed := uint64(1); seed <= 200; seed++ {
		a := Run(t, NewTape(seed), Config{PreemptPermille: 400}, condWorkload)
		b := Run(t, ReplayTape(a.Tape.Rec), Config{PreemptPermille: 400}, condWorkload)
		if a.Failed() {
			t.Fatalf("seed %d: %v", seed, a.Failures)
		}
		if a.LogHash() != b.LogHash() || a.SchedSig() != b.SchedSig() {
			t.Fatalf("seed %d: replay differs", seed)
		}
	}
}
