package engines

import (
	"bytes"
	"encoding/base64"
	"fmt"
	"strconv"
	"strings"
	"time"

	"github.com/gofiber/fiber/v3"
	"github.com/gofiber/fiber/v3/middleware/encryptcookie"

	"verif.local/sim/harness"
	"verif.local/sim/simrt"
)

// C20 — encrypted cookies (DESIGN.md 3.11). The browser is the untrusted
// peer: between the response that sets the cookies and the request that
// returns them its stored values are altered.
//
// The AES-GCM nonce comes from crypto/rand, so the ciphertext bytes differ
// between two executions of the same tape. Nothing that is logged, hashed or
// put into a failure detail depends on them: only lengths, positions, xor
// masks and the class of what the handler saw (see ecRun.class).

func init() {
	harness.Register(&harness.Engine{
		Name: "enccookie", Property: "C20", Level: "fault_enumeration",
		Main:       enccookieMain,
		MaxSimTime: time.Hour,
		Rule: "per run the tape draws the key (16/24/32 bytes), a foreign key, an old key, 1-4 cookie names (with names that are prefixes of each other), an Except list, per cookie a value " +
			"(text, empty, 1-7 bytes, 1-48 cookie octets, 300-1200 cookie octets, a text that is itself valid base64 of ciphertext size) and attributes; every value is first sent through an app without the middleware (control); " +
			"then: optional issue under the old key followed by the key change, issue of all cookies in one response (optionally by a handler that fails afterwards), untouched round trip, optional re-issue of a subset, " +
			"and in the fault stratum 1-6 alterations of the browser's store, each applied to the freshly restored issued values: base64-digit substitution by xor mask / foreign byte at a drawn position (biased to the last digits), truncation at either end to a drawn length, " +
			"extension at either end, a value encrypted under the foreign key, a forged value, exchange of two issued values, replay of an earlier issued value; " +
			"12% of the fault runs additionally sweep one issued value of at most 160 bytes: a substitution at every position and a truncation to every length; " +
			"distinct = hash of (configuration, per step (alteration, target, class of what the handler saw)); non-trivial = at least one alteration was applied to an encrypted cookie",
		Assumptions: []string{
			"plaintexts are drawn from cookie octets without DQUOTE, space, comma, semicolon and backslash and must survive the control round trip without the middleware; a value that does not is not used (probe_control_*)",
			"alterations use printable cookie octets only, so that the request parser hands the altered text to the middleware as sent",
			"an issued value moved to another encrypted name may come back as its own plaintext or as empty (the statement does not say whether the ciphertext is bound to the name); a value whose text is not the issued one but base64-decodes (RFC 4648 with padding, as encoding/base64.StdEncoding) to issued ciphertext bytes may come back as that plaintext or as empty",
			"the nonce source is the real crypto/rand: the chance that a ciphertext contains a plaintext of 8 bytes or more, or that a forged value authenticates, is treated as zero",
			"no scheduling or time is involved; requests are sequential",
		},
		Components: map[string]string{
			"encryptcookie middleware, EncryptCookie/DecryptCookie, crypto/aes, crypto/cipher, crypto/rand": "real",
			"fiber cookie API, fasthttp cookie and header codecs":                                           "real",
			"browser":                            "stub harness.Browser (net/http response parser, RFC 6265 store), alterations applied to its store",
			"fasthttp accept loop / worker pool": "stub (harness.Conn)",
			"application without the middleware (control)": "real app, same handlers",
			"application before the key change (old key)":  "real second app with another key",
		},
	})
}

const (
	ecB64   = "ABCDEFGHIJKLMNOPQRSTUVWXYZabcdefghijklmnopqrstuvwxyz0123456789+/"
	ecOther = "-_.!*~#$%&'()@^`{|}:<>?[]"
	ecPlain = ecB64 + "=" + ecOther
)

type ecCookie struct {
	name     string
	except   bool
	plain    string
	kind     string
	httpOnly bool
	maxAge   int
	issued   string   // text the browser holds after the last issue by the current app
	earlier  []string // texts issued before by the current app
	usable   bool
}

type ecIssue struct {
	name  string
	plain string
	text  string
	raw   []byte
}

type ecOp struct {
	sets []*ecCookie
	vals []string
	fail bool
	seen map[string]string
}

type ecRun struct {
	s       *simrt.Sim
	cookies []*ecCookie
	issues  []*ecIssue // every value issued by the current app for an encrypted name
}

// class describes a value seen by the handler without revealing ciphertext bytes.
func (r *ecRun) class(seen, sent string) string {
	switch {
	case seen == "":
		return "empty"
	case seen == sent:
		return fmt.Sprintf("the text as sent (%d bytes)", len(sent))
	}
	for _, c := range r.cookies {
		if seen == c.plain {
			return fmt.Sprintf("the plaintext of %s", c.name)
		}
	}
	for _, is := range r.issues {
		if seen == is.plain {
			return fmt.Sprintf("an earlier plaintext of %s", is.name)
		}
		if seen == is.text {
			return fmt.Sprintf("an issued ciphertext text of %s", is.name)
		}
	}
	return fmt.Sprintf("other text (%d bytes)", len(seen))
}

func ecDrawString(s *simrt.Sim, alphabet string, n int) string {
	b := make([]byte, n)
	for i := range b {
		b[i] = alphabet[s.Draw(len(alphabet))]
	}
	return string(b)
}

func ecKey(s *simrt.Sim, n int) string {
	b := make([]byte, n)
	for i := range b {
		b[i] = byte(s.Draw(256))
	}
	return base64.StdEncoding.EncodeToString(b)
}

func enccookieMain(s *simrt.Sim, info *harness.RunInfo) {
	s.SetPreempt(0)
	faults := s.Chance(500)
	info.Faults = faults
	// the plan of the run comes first on the tape, the bulk (keys, values,
	// positions) afterwards: minimised tapes stay aligned
	keyLen := simrt.PickS(s, 32, 16, 24)
	otherLen := simrt.PickS(s, 32, 16, 24)
	oldLen := simrt.PickS(s, 32, 16, 24)
	keyChange := faults && s.Chance(250)
	failAfterSet := s.Chance(150)
	reissue := s.Chance(300)
	sweep := faults && s.Chance(120)
	nsteps := s.Range(1, 6)
	var stepKinds []string
	for i := 0; i < 6; i++ {
		stepKinds = append(stepKinds, simrt.PickS(s, "substitute", "truncate", "extend", "foreign-key", "forge", "swap", "replay", "substitute", "truncate"))
	}
	ncook := s.Range(1, 4)
	exceptAny := s.Chance(400)
	key := ecKey(s, keyLen)
	otherKey := ecKey(s, otherLen)
	oldKey := ecKey(s, oldLen)
	if otherKey == key || oldKey == key {
		// all-zero tapes: keep the keys different
		otherKey = base64.StdEncoding.EncodeToString(bytes.Repeat([]byte{0x5a}, otherLen))
		oldKey = base64.StdEncoding.EncodeToString(bytes.Repeat([]byte{0xa5}, oldLen))
	}

	pool := []string{"sid", "sid2", "s", "token", "c_k-1", "x-y.z", "prefs", "A"}
	r := &ecRun{s: s}
	start := s.Draw(len(pool))
	longUsed := false
	var except []string
	for i := 0; i < ncook; i++ {
		c := &ecCookie{name: pool[(start+i*simrt.PickS(s, 1, 3, 5))%len(pool)], usable: true}
		dup := false
		for _, o := range r.cookies {
			if o.name == c.name {
				dup = true
			}
		}
		if dup {
			continue
		}
		if exceptAny && s.Chance(350) {
			c.except = true
			except = append(except, c.name)
		}
		c.httpOnly = s.Chance(300)
		c.maxAge = simrt.PickS(s, 0, 3600)
		r.cookies = append(r.cookies, c)
	}
	if exceptAny && s.Chance(300) {
		except = append(except, "never-set")
	}
	genValue := func(i int) (string, string) {
		k := s.Draw(6)
		if k == 3 && longUsed {
			k = 2
		}
		switch k {
		case 0:
			return "val-" + strconv.Itoa(i) + "-text-" + ecDrawString(s, ecB64, 3), "text"
		case 1:
			return "", "empty"
		case 2:
			return ecDrawString(s, ecPlain, s.Range(8, 48)), "octets"
		case 3:
			longUsed = true
			return ecDrawString(s, ecPlain, s.Range(300, 1200)), "long"
		case 4:
			return base64.StdEncoding.EncodeToString([]byte(ecDrawString(s, ecPlain, s.Range(28, 45)))), "base64-like"
		default:
			return ecDrawString(s, ecPlain, s.Range(1, 7)), "short"
		}
	}
	for i, c := range r.cookies {
		c.plain, c.kind = genValue(i)
	}
	var cl strings.Builder
	for _, c := range r.cookies {
		fmt.Fprintf(&cl, " %s(except=%v %s/%d httpOnly=%v maxAge=%d)", c.name, c.except, c.kind, len(c.plain), c.httpOnly, c.maxAge)
	}
	cfgLine := fmt.Sprintf("faults=%v key=%dB foreign=%dB old=%dB keyChange=%v except=%v cookies:%s", faults, keyLen, otherLen, oldLen, keyChange, except, cl.String())
	s.Logf("cfg %s", cfgLine)

	// ---- apps ----
	var ops []*ecOp
	var names []string
	for _, c := range r.cookies {
		names = append(names, c.name)
	}
	mkApp := func(k string) *fiber.App {
		app := fiber.New()
		if k != "" {
			cfg := encryptcookie.Config{Key: k}
			if except != nil {
				cfg.Except = append([]string(nil), except...)
			}
			app.Use(encryptcookie.New(cfg))
		}
		app.Post("/set", func(c fiber.Ctx) error {
			op := ops[atoi(c.Get("X-Op"))]
			for i, ck := range op.sets {
				c.Cookie(&fiber.Cookie{Name: ck.name, Value: op.vals[i], Path: "/", HTTPOnly: ck.httpOnly, MaxAge: ck.maxAge})
			}
			if op.fail {
				return fiber.NewError(fiber.StatusInternalServerError, "handler failed after setting cookies")
			}
			return c.SendString("set")
		})
		app.Get("/get", func(c fiber.Ctx) error {
			op := ops[atoi(c.Get("X-Op"))]
			op.seen = map[string]string{}
			for _, n := range names {
				op.seen[n] = strings.Clone(c.Cookies(n))
			}
			return c.SendString("got")
		})
		app.Handler()
		return app
	}
	appCur, appCtl := mkApp(key), mkApp("")
	connCur, connCtl := harness.NewConn(appCur, "10.0.0.1"), harness.NewConn(appCtl, "10.0.0.2")

	panicked := false
	do := func(conn *harness.Conn, b *harness.Browser, method, path string, op *ecOp) *harness.Resp {
		ops = append(ops, op)
		req := harness.Req{Method: method, Path: path, Headers: [][2]string{{"X-Op", strconv.Itoa(len(ops) - 1)}}}
		if h := b.Header(); h != "" {
			req.Headers = append(req.Headers, [2]string{"Cookie", h})
		}
		var resp *harness.Resp
		func() {
			defer func() {
				if p := recover(); p != nil {
					s.Fail("C20.panic", "%s %s with %d cookies panicked: %v", method, path, len(b.Cookies), p)
					resp = &harness.Resp{ReadErr: fmt.Errorf("panic")}
					panicked = true
				}
			}()
			resp = conn.Do(req.Bytes())
		}()
		return resp
	}
	setAll := func(list []*ecCookie, fail bool) *ecOp {
		op := &ecOp{sets: list, fail: fail}
		for _, c := range list {
			op.vals = append(op.vals, c.plain)
		}
		return op
	}

	// ---- control: the values survive fiber + fasthttp + the browser without the middleware ----
	bc := harness.NewBrowser("control")
	resp := do(connCtl, bc, "POST", "/set", setAll(r.cookies, false))
	if _, err := bc.Apply(resp, "POST"); err != nil || resp.ReadErr != nil {
		s.Count("probe_control_response_unparsable")
		s.Logf("control: response not usable (%v / %v), run skipped", err, resp.ReadErr)
		return
	}
	gop := &ecOp{}
	resp = do(connCtl, bc, "GET", "/get", gop)
	for _, c := range r.cookies {
		if resp.ReadErr != nil || gop.seen == nil || gop.seen[c.name] != c.plain {
			c.usable = false
			s.Count("probe_control_value_not_round_tripped")
			s.Logf("control: value of %s (%s, %d bytes) does not survive without the middleware; not used", c.name, c.kind, len(c.plain))
		}
	}
	var use []*ecCookie
	for _, c := range r.cookies {
		if c.usable {
			use = append(use, c)
		}
	}
	if len(use) != len(r.cookies) {
		r.cookies = use
		names = names[:0]
		for _, c := range use {
			names = append(names, c.name)
		}
	}
	if len(r.cookies) == 0 {
		return
	}

	h := newHasher().str(cfgLine)
	b := harness.NewBrowser("b1")

	// issue: POST /set on an app, store the response in the browser, check the wire
	issue := func(conn *harness.Conn, list []*ecCookie, fail bool, current bool, label string) bool {
		op := setAll(list, fail)
		resp := do(conn, b, "POST", "/set", op)
		if panicked {
			return false
		}
		if resp.ReadErr != nil {
			s.Fail("C20.harness", "%s: request not served: %v", label, resp.ReadErr)
			return false
		}
		if _, err := b.Apply(resp, "POST"); err != nil {
			s.Fail("C20.set-cookie-unparsable", "%s: a strict client cannot parse the response that sets %d cookies (it could without the middleware): %v", label, len(list), err)
			return false
		}
		var lens []string
		for _, c := range list {
			got, ok := b.Get(c.name)
			if !ok && fail {
				s.Count("probe_failing_handler_lost_cookies")
				return false
			}
			if !ok {
				s.Fail("C20.issued-cookie-missing", "%s: the response sets no cookie %s (status %d, %d Set-Cookie lines); the control app without the middleware did", label, c.name, resp.Status, len(resp.Header["Set-Cookie"]))
				return false
			}
			lens = append(lens, c.name+":"+strconv.Itoa(len(got)))
			if c.except {
				if got != c.plain {
					s.Fail("C20.except-out-changed", "%s: %s is in Except, the handler set %s (%d bytes), the client received %s", label, c.name, c.kind, len(c.plain), r.class(got, ""))
				}
				if current {
					c.issued = got
				}
				continue
			}
			if c.plain != "" && got == c.plain {
				s.Fail("C20.plaintext-on-wire", "%s: cookie %s reached the client with the handler's plaintext (%s, %d bytes) as its value", label, c.name, c.kind, len(c.plain))
			} else if len(c.plain) >= 8 && bytes.Contains(resp.Raw, []byte(c.plain)) {
				legit := false
				for _, o := range list {
					if o.except && strings.Contains(o.plain, c.plain) {
						legit = true
					}
				}
				if !legit {
					s.Fail("C20.plaintext-on-wire", "%s: the response bytes contain the plaintext of cookie %s (%s, %d bytes)", label, c.name, c.kind, len(c.plain))
				}
			}
			if current {
				if c.issued != "" {
					c.earlier = append(c.earlier, c.issued)
				}
				c.issued = got
				raw, err := base64.StdEncoding.DecodeString(got)
				if err != nil {
					raw = nil
				}
				r.issues = append(r.issues, &ecIssue{name: c.name, plain: c.plain, text: got, raw: raw})
			}
		}
		s.Logf("%s: status=%d stored value lengths %v fail=%v", label, resp.Status, lens, fail)
		return true
	}

	// look: GET /get with the browser's current store and judge every cookie
	look := func(label, kind string, touched map[string]bool) {
		sent := map[string]string{}
		for _, c := range r.cookies {
			sent[c.name], _ = b.Get(c.name)
		}
		op := &ecOp{}
		resp := do(connCur, b, "GET", "/get", op)
		if panicked {
			return
		}
		if resp.ReadErr != nil || op.seen == nil {
			s.Fail("C20.harness", "%s: request not served (status %d): %v", label, resp.Status, resp.ReadErr)
			return
		}
		for _, c := range r.cookies {
			seen, snt := op.seen[c.name], sent[c.name]
			cls := r.class(seen, snt)
			verdict := "ok"
			switch {
			case c.except:
				if seen != snt {
					verdict = "BAD"
					s.Fail("C20.except-in-changed", "%s: %s is in Except, the client sent %d bytes (%s), the handler saw %s", label, c.name, len(snt), kind, cls)
				}
			case snt == c.issued && !touched[c.name]:
				if seen != c.plain {
					verdict = "BAD"
					s.Fail("C20.roundtrip", "%s: cookie %s (%s, %d bytes) was returned as issued, the handler saw %s", label, c.name, c.kind, len(c.plain), cls)
				}
			default:
				allowed := []string{""}
				why := "not issued under the current key"
				dec, err := base64.StdEncoding.DecodeString(snt)
				for _, is := range r.issues {
					switch {
					case is.text == snt && is.name == c.name:
						allowed, why = []string{is.plain}, "a value issued for this name under the current key"
					case is.text == snt:
						allowed, why = []string{is.plain, ""}, "a value issued for "+is.name+" under the current key"
					case err == nil && is.raw != nil && bytes.Equal(dec, is.raw):
						allowed, why = []string{is.plain, ""}, "decodes to the ciphertext bytes issued for "+is.name
						s.Count("probe_alteration_decodes_to_issued_ciphertext")
					default:
						continue
					}
					break
				}
				okv := false
				for _, a := range allowed {
					if seen == a {
						okv = true
					}
				}
				if !okv {
					verdict = "BAD"
					id := map[string]string{"substitute": "C20.altered-accepted", "truncate": "C20.truncated-accepted", "extend": "C20.extended-accepted", "foreign-key": "C20.foreign-key-accepted",
						"forge": "C20.forged-accepted", "swap": "C20.swapped-other-text", "replay": "C20.roundtrip", "old-key": "C20.old-key-accepted"}[kind]
					if id == "" {
						id = "C20.altered-accepted"
					}
					s.Fail(id, "%s: cookie %s (%s, %d bytes; issued text %d bytes) came back as %d bytes that are %s; the handler saw %s", label, c.name, c.kind, len(c.plain), len(c.issued), len(snt), why, cls)
				}
			}
			s.Logf("%s: %s sent=%dB saw %s [%s]", label, c.name, len(snt), cls, verdict)
			h.str(label).str(c.name).str(cls)
		}
	}

	// ---- issued before a key change ----
	if keyChange {
		appOld := mkApp(oldKey)
		connOld := harness.NewConn(appOld, "10.0.0.3")
		if issue(connOld, r.cookies, false, false, "issue under the old key") {
			s.Count("fault_issued_before_key_change")
			t := map[string]bool{}
			for _, c := range r.cookies {
				t[c.name] = true
			}
			look("after the key change", "old-key", t)
		}
	}

	// ---- issue, untouched round trip, re-issue ----
	if !issue(connCur, r.cookies, failAfterSet, true, "issue") {
		return
	}
	look("untouched", "none", nil)
	if reissue {
		var sub []*ecCookie
		for i, c := range r.cookies {
			if s.Chance(600) {
				c.plain, c.kind = genValue(10 + i)
				sub = append(sub, c)
			}
		}
		if len(sub) > 0 {
			// new values must pass the control too
			cop := &ecOp{}
			bc2 := harness.NewBrowser("control2")
			resp := do(connCtl, bc2, "POST", "/set", setAll(sub, false))
			_, err := bc2.Apply(resp, "POST")
			resp2 := do(connCtl, bc2, "GET", "/get", cop)
			okc := err == nil && resp.ReadErr == nil && resp2.ReadErr == nil && cop.seen != nil
			for _, c := range sub {
				if !okc || cop.seen[c.name] != c.plain {
					okc = false
				}
			}
			if !okc {
				s.Count("probe_control_value_not_round_tripped")
				s.Logf("control: a re-issued value does not survive without the middleware; run ends")
				info.StateHash = h.h
				return
			}
			if !issue(connCur, sub, false, true, "re-issue of "+strconv.Itoa(len(sub))) {
				return
			}
			look("untouched after re-issue", "none", nil)
		}
	}

	// ---- alterations by the untrusted peer ----
	altered := 0
	if faults {
		for step := 0; step < nsteps && !s.Failed(); step++ {
			// restore what the server issued
			for _, c := range r.cookies {
				b.Set(c.name, c.issued)
			}
			ti := s.Draw(len(r.cookies))
			c := r.cookies[ti]
			text := c.issued
			kind := stepKinds[step]
			var desc string
			var nt string
			touched := map[string]bool{c.name: true}
			switch kind {
			case "substitute":
				if len(text) == 0 {
					continue
				}
				pos := s.Draw(len(text))
				if s.Chance(300) {
					pos = len(text) - 1 - s.Draw(min(4, len(text)))
				}
				orig := text[pos]
				idx := strings.IndexByte(ecB64, orig)
				if idx >= 0 && !s.Chance(250) {
					mask := 1 + s.Draw(63)
					nt = text[:pos] + string(ecB64[idx^mask]) + text[pos+1:]
					desc = fmt.Sprintf("base64 digit %d of %d xor %#02x", pos, len(text), mask)
				} else {
					k := s.Draw(len(ecOther))
					if ecOther[k] == orig {
						k = (k + 1) % len(ecOther)
					}
					nt = text[:pos] + string(ecOther[k]) + text[pos+1:]
					desc = fmt.Sprintf("byte %d of %d replaced by %q", pos, len(text), ecOther[k])
				}
			case "truncate":
				if len(text) == 0 {
					continue
				}
				switch s.Draw(3) {
				case 0:
					l := s.Draw(len(text))
					nt, desc = text[:l], fmt.Sprintf("first %d of %d bytes kept", l, len(text))
				case 1:
					l := len(text) - 1 - s.Draw(min(4, len(text)))
					nt, desc = text[:l], fmt.Sprintf("first %d of %d bytes kept", l, len(text))
				default:
					l := 1 + s.Draw(min(len(text), 24))
					nt, desc = text[l:], fmt.Sprintf("first %d of %d bytes dropped", l, len(text))
				}
			case "extend":
				add := ecDrawString(s, ecB64+"=="+"-_", s.Range(1, 4))
				if s.Chance(300) {
					nt, desc = add+text, fmt.Sprintf("%q put before the %d bytes", add, len(text))
				} else {
					nt, desc = text+add, fmt.Sprintf("%q appended to the %d bytes", add, len(text))
				}
			case "foreign-key":
				p := c.plain
				if s.Chance(300) {
					p = "admin"
				}
				v, err := encryptcookie.EncryptCookie(p, otherKey)
				if err != nil {
					s.Fail("C20.harness", "EncryptCookie with a %d byte key: %v", otherLen, err)
					return
				}
				nt, desc = v, fmt.Sprintf("%d bytes plaintext encrypted under the foreign %d byte key", len(p), otherLen)
			case "forge":
				switch s.Draw(3) {
				case 0:
					n := simrt.PickS(s, 28, 0, 5, 12, 16, 40, 64)
					nt = base64.StdEncoding.EncodeToString([]byte(ecDrawString(s, ecPlain, n)))
					desc = fmt.Sprintf("base64 of %d arbitrary bytes", n)
				case 1:
					nt, desc = "admin", "the bare text admin"
				default:
					nt = ecDrawString(s, ecPlain, s.Range(1, 60))
					desc = fmt.Sprintf("%d arbitrary cookie octets", len(nt))
				}
			case "swap":
				if len(r.cookies) < 2 {
					continue
				}
				oj := (ti + 1 + s.Draw(len(r.cookies)-1)) % len(r.cookies)
				o := r.cookies[oj]
				if o.issued == c.issued {
					continue
				}
				b.Set(o.name, c.issued)
				touched[o.name] = true
				nt, desc = o.issued, fmt.Sprintf("issued values of %s and %s exchanged", c.name, o.name)
			case "replay":
				if len(c.earlier) == 0 || c.earlier[len(c.earlier)-1] == c.issued {
					continue
				}
				nt, desc = c.earlier[len(c.earlier)-1], "the value issued before the current one"
			}
			if nt == text {
				continue
			}
			b.Set(c.name, nt)
			s.Count("fault_" + strings.ReplaceAll(kind, "-", "_"))
			if !c.except {
				altered++
			} else {
				s.Count("probe_alteration_of_excepted_cookie")
			}
			label := fmt.Sprintf("step%d %s on %s (%s)", step, kind, c.name, desc)
			h.str(kind).int(ti)
			look(label, kind, touched)
		}
	}
	// ---- sweep: every position and every length of one short issued value ----
	if sweep && !s.Failed() {
		var c *ecCookie
		for _, k := range r.cookies {
			if !k.except && len(k.issued) > 0 && len(k.issued) <= 160 {
				c = k
				break
			}
		}
		if c != nil {
			text := c.issued
			s.Count("probe_sweep_runs")
			for pos := 0; pos < len(text) && !s.Failed(); pos++ {
				for _, k := range r.cookies {
					b.Set(k.name, k.issued)
				}
				var nt, desc string
				if idx := strings.IndexByte(ecB64, text[pos]); idx >= 0 {
					mask := 1 + s.Draw(63)
					nt, desc = text[:pos]+string(ecB64[idx^mask])+text[pos+1:], fmt.Sprintf("base64 digit %d of %d xor %#02x", pos, len(text), mask)
				} else {
					k := s.Draw(len(ecB64))
					nt, desc = text[:pos]+string(ecB64[k])+text[pos+1:], fmt.Sprintf("padding byte %d of %d replaced by digit %d", pos, len(text), k)
				}
				b.Set(c.name, nt)
				s.Count("fault_substitute")
				altered++
				look(fmt.Sprintf("sweep substitute on %s (%s)", c.name, desc), "substitute", map[string]bool{c.name: true})
			}
			for l := 0; l < len(text) && !s.Failed(); l++ {
				for _, k := range r.cookies {
					b.Set(k.name, k.issued)
				}
				b.Set(c.name, text[:l])
				s.Count("fault_truncate")
				altered++
				look(fmt.Sprintf("sweep truncate on %s (first %d of %d bytes kept)", c.name, l, len(text)), "truncate", map[string]bool{c.name: true})
			}
		}
	}
	info.StateHash = h.h
	info.Nontrivial = altered > 0
	info.Sample = map[string]any{"config": cfgLine, "alterations": altered}
}
