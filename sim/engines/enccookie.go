package engines

import (
	"bytes"
	"encoding/base64"
	"fmt"
	"strconv"
	"strings"
	"sync"
	"time"

	"github.com/gofiber/fiber/v3"
	"github.com/gofiber/fiber/v3/middleware/encryptcookie"

	"verif.local/sim/harness"
	"verif.local/sim/simrt"
)

// C20 — encrypted cookies (DESIGN.md 3.11). The browser is the untrusted
// peer: between the response that sets the cookies and the request that
// returns them its stored values are altered.
//
// The AES-GCM nonce comes from crypto/rand, so the ciphertext bytes differ
// between two executions of the same tape. Nothing that is logged, hashed or
// put into a failure detail depends on them: only lengths, positions, xor
// masks and the class of what the handler saw (see ecClient.class).

func init() {
	harness.Register(&harness.Engine{
		Name: "enccookie", Property: "C20", Level: "fault_enumeration",
		Main:       enccookieMain,
		MaxSimTime: time.Hour,
		Rule: "per run the tape draws the key (16/24/32 bytes), a foreign key, an old key, 1-4 cookie names (with names that are prefixes of each other), an Except list, per cookie a value " +
			"(text, empty, 1-7 bytes, 1-48 cookie octets, 300-1200 cookie octets, a text that is itself valid base64 of ciphertext size) and attributes; every value is first sent through an app without the middleware (control); " +
			"then: optional issue under the old key followed by the key change, issue of all cookies in one response (optionally by a handler that fails afterwards), untouched round trip, optional re-issue of a subset, " +
			"and in the fault stratum 1-6 alterations of the browser's store, each applied to the freshly restored issued values: base64-digit substitution by xor mask / foreign byte at a drawn position (biased to the last digits), truncation at either end to a drawn length, " +
			"extension at either end, a value encrypted under the foreign key, a forged value, exchange of two issued values, replay of an earlier issued value; " +
			"12% of the fault runs additionally sweep one issued value of at most 160 bytes: a substitution at every position and a truncation to every length; " +
			"the middleware runs with the default Encryptor/Decryptor or with a wrapping pair around the real functions that yields (and sometimes sleeps 1 ms) inside and, in the fault stratum, fails on the n-th call (Encryptor: the request may die or answer with any status, but nothing it writes may carry a plaintext; the issue is then repeated. Decryptor: the cookie must arrive empty or intact); " +
			"35% of the runs are concurrent: 2-3 browsers with disjoint cookie names, each on its own connection task, run the whole sequence against the one middleware instance under a drawn preemption rate, all oracles per request; " +
			"distinct = hash of (configuration, per client and step (alteration, target, class of what the handler saw)); non-trivial = an alteration was applied to an encrypted cookie, an injected Encryptor/Decryptor error fired, or two requests overlapped",
		Assumptions: []string{
			"plaintexts are drawn from cookie octets without DQUOTE, space, comma, semicolon and backslash and must survive the control round trip without the middleware; a value that does not is not used (probe_control_*)",
			"alterations use printable cookie octets only, so that the request parser hands the altered text to the middleware as sent",
			"an issued value moved to another encrypted name may come back as its own plaintext or as empty (the statement does not say whether the ciphertext is bound to the name); a value whose text is not the issued one but base64-decodes (RFC 4648 with padding, as encoding/base64.StdEncoding) to issued ciphertext bytes may come back as that plaintext or as empty",
			"the nonce source is the real crypto/rand: the chance that a ciphertext contains a plaintext of 8 bytes or more, or that a forged value authenticates, is treated as zero",
			"interleavings of concurrent requests are explored at the granularity of the yields inside the wrapped Encryptor/Decryptor, the 1 ms sleeps there, and fiber's own synchronisation operations",
			"after an injected Encryptor error the middleware may kill the request (the connection task recovers the panic, as a server would close the connection) or answer with any status; only 'no plaintext on the wire' is required of that response",
		},
		Components: map[string]string{
			"encryptcookie middleware, EncryptCookie/DecryptCookie, crypto/aes, crypto/cipher, crypto/rand": "real",
			"fiber cookie API, fasthttp cookie and header codecs":                                           "real",
			"browser":                            "stub harness.Browser (net/http response parser, RFC 6265 store), alterations applied to its store",
			"fasthttp accept loop / worker pool": "stub (harness.Conn)",
			"application without the middleware (control)": "real app, same handlers",
			"application before the key change (old key)":  "real second app with another key",
			"Encryptor / Decryptor":                        "default (real) or a yielding / failing wrapper around the real EncryptCookie / DecryptCookie, chosen per run",
		},
	})
}

const (
	ecB64   = "ABCDEFGHIJKLMNOPQRSTUVWXYZabcdefghijklmnopqrstuvwxyz0123456789+/"
	ecOther = "-_.!*~#$%&'()@^`{|}:<>?[]"
	ecPlain = ecB64 + "=" + ecOther
)

type ecCookie struct {
	name     string
	except   bool
	plain    string
	kind     string
	httpOnly bool
	maxAge   int
	issued   string   // text the browser holds after the last issue by the current app
	earlier  []string // texts issued before by the current app
	usable   bool
}

type ecIssue struct {
	name  string
	plain string
	text  string
	raw   []byte
}

type ecOp struct {
	cl        *ecClient
	sets      []*ecCookie
	vals      []string
	fail      bool
	flipNext  bool   // the handler changes what Config.Next looks at (after the middleware has decided)
	dup       bool   // the handler sets the first cookie twice (other path first): the later call replaces the earlier
	path      string // "/set" or "/refresh"
	rawLine   int    // /logout: 0 = through c.Cookie; 1, 2 = the handler writes the Set-Cookie line itself, in a spelling fasthttp's cookie parser rejects
	seen      map[string]string
	encFailed bool            // an injected Encryptor error fired in this request
	decFailed map[string]bool // values for which an injected Decryptor error fired
}

type ecPlan struct {
	failAfterSet bool
	reissue      bool
	refresh      bool
	sweep        bool
	logout       bool
	nsteps       int
	stepKinds    []string
	ncook        int
}

// ecEnv is what all clients of one run share: the apps (one middleware
// instance), the keys and the wrapped Encryptor / Decryptor.
type ecEnv struct {
	s          *simrt.Sim
	ops        []*ecOp
	opOfTask   map[int]*ecOp
	clients    []*ecClient
	key        string
	otherKey   string
	oldKey     string
	otherLen   int
	except     []string
	useNext    bool
	keyChange  bool
	dirtyErr   bool // the wrapped Decryptor hands back text next to its error (a caller must not use it)
	faults     bool
	yields     bool
	sleepPm    int
	encCalls   int
	failEncAt  int
	decCalls   int
	failDecAt  int
	inflight   int
	overlapped bool
	fired      int
	appCur     *fiber.App
	appCtl     *fiber.App
	appOld     *fiber.App
}

type ecClient struct {
	env      *ecEnv
	s        *simrt.Sim
	id       int
	tag      string
	plan     ecPlan
	cookies  []*ecCookie
	names    []string
	issues   []*ecIssue // every value issued by the current app for an encrypted name of this client
	b        *harness.Browser
	connCur  *harness.Conn
	connCtl  *harness.Conn
	connOld  *harness.Conn
	h        *hasher
	altered  int
	longUsed bool
	dead     bool
}

// class describes a value seen by the handler without revealing ciphertext bytes.
func (cl *ecClient) class(seen, sent string) string {
	switch {
	case seen == "":
		return "empty"
	case seen == sent:
		return fmt.Sprintf("the text as sent (%d bytes)", len(sent))
	}
	for _, o := range cl.env.clients {
		for _, c := range o.cookies {
			if seen == c.plain {
				return fmt.Sprintf("the plaintext of %s", c.name)
			}
		}
	}
	for _, o := range cl.env.clients {
		for _, is := range o.issues {
			if seen == is.plain {
				return fmt.Sprintf("an earlier plaintext of %s", is.name)
			}
			if seen == is.text {
				return fmt.Sprintf("an issued ciphertext text of %s", is.name)
			}
		}
	}
	return fmt.Sprintf("other text (%d bytes)", len(seen))
}

func ecDrawString(s *simrt.Sim, alphabet string, n int) string {
	b := make([]byte, n)
	for i := range b {
		b[i] = alphabet[s.Draw(len(alphabet))]
	}
	return string(b)
}

func ecKey(s *simrt.Sim, n int) string {
	b := make([]byte, n)
	for i := range b {
		b[i] = byte(s.Draw(256))
	}
	return base64.StdEncoding.EncodeToString(b)
}

func (env *ecEnv) encrypt(v, k string) (string, error) {
	s := env.s
	env.encCalls++
	n := env.encCalls
	op := env.opOfTask[simrt.TaskID()]
	if env.yields {
		simrt.Yield(2001)
		if s.Chance(env.sleepPm) {
			simrt.Sleep(time.Millisecond)
		}
	}
	if n == env.failEncAt {
		s.Count("fault_encryptor_error")
		env.fired++
		if op != nil {
			op.encFailed = true
		}
		s.Logf("Encryptor call %d fails (injected)", n)
		return "", harness.ErrInjected
	}
	out, err := encryptcookie.EncryptCookie(v, k)
	if env.yields {
		simrt.Yield(2002)
	}
	return out, err
}

func (env *ecEnv) decrypt(v, k string) (string, error) {
	s := env.s
	env.decCalls++
	n := env.decCalls
	op := env.opOfTask[simrt.TaskID()]
	if env.yields {
		simrt.Yield(2003)
		if s.Chance(env.sleepPm / 2) {
			simrt.Sleep(time.Millisecond)
		}
	}
	if n == env.failDecAt {
		s.Count("fault_decryptor_error")
		env.fired++
		if op != nil {
			if op.decFailed == nil {
				op.decFailed = map[string]bool{}
			}
			op.decFailed[strings.Clone(v)] = true
		}
		s.Logf("Decryptor call %d fails (injected)", n)
		if env.dirtyErr {
			return "partial-" + strconv.Itoa(n), harness.ErrInjected
		}
		return "", harness.ErrInjected
	}
	out, err := encryptcookie.DecryptCookie(v, k)
	if env.yields {
		simrt.Yield(2004) // other requests may run between the Decryptor's return and the use of its result
	}
	if err != nil && env.dirtyErr {
		// verify-then-report style: what was decoded so far comes back with the error
		out = "rejected-" + strconv.Itoa(n)
		s.Count("probe_decryptor_error_with_text")
	}
	return out, err
}

func (env *ecEnv) mkApp(k string, wrap bool) *fiber.App {
	app := fiber.New()
	if k != "" {
		cfg := encryptcookie.Config{Key: k}
		if env.useNext {
			// false when the request comes in (so the middleware is in force for it); handlers may change
			// what it looks at while they run
			cfg.Next = func(c fiber.Ctx) bool { return c.Locals("serve-raw") != nil || strings.HasPrefix(c.Path(), "/assets/") }
		}
		if env.except != nil {
			cfg.Except = append([]string(nil), env.except...)
		}
		if wrap {
			cfg.Encryptor, cfg.Decryptor = env.encrypt, env.decrypt
		}
		app.Use(encryptcookie.New(cfg))
	}
	app.Post("/set", func(c fiber.Ctx) error {
		op := env.ops[atoi(c.Get("X-Op"))]
		for i, ck := range op.sets {
			if op.dup && i == 0 {
				c.Cookie(&fiber.Cookie{Name: ck.name, Value: op.vals[i], Path: "/elsewhere"})
			}
			c.Cookie(&fiber.Cookie{Name: ck.name, Value: op.vals[i], Path: "/", HTTPOnly: ck.httpOnly, MaxAge: ck.maxAge})
		}
		if env.useNext && op.flipNext {
			// the handler hands the rest of the work to something keyed by locals / another path
			c.Locals("serve-raw", true)
			c.Path("/assets/app.js")
		}
		if op.fail {
			return fiber.NewError(fiber.StatusInternalServerError, "handler failed after setting cookies")
		}
		return c.SendString("set")
	})
	// sliding expiry: every cookie the request carried is set again with the value the handler was given
	app.Post("/refresh", func(c fiber.Ctx) error {
		op := env.ops[atoi(c.Get("X-Op"))]
		for _, ck := range op.sets {
			c.Cookie(&fiber.Cookie{Name: ck.name, Value: c.Cookies(ck.name), Path: "/", HTTPOnly: ck.httpOnly, MaxAge: ck.maxAge})
		}
		return c.SendString("refreshed")
	})
	// the cookies are sent once more with their value and an expiry in the past (one way of logging out)
	app.Post("/logout", func(c fiber.Ctx) error {
		op := env.ops[atoi(c.Get("X-Op"))]
		for i, ck := range op.sets {
			if op.rawLine > 0 && ck.kind == "text" {
				// a line as another component hands it on (an upstream's Set-Cookie, a helper library): plain token
				// value, an expiry attribute in a spelling fasthttp does not parse
				attr := [...]string{"", "Max-Age=-1", "Expires=Sunday, 06-Nov-94 08:49:37 GMT"}[op.rawLine]
				c.Response().Header.Add("Set-Cookie", ck.name+"="+op.vals[i]+"; Path=/; "+attr)
				continue
			}
			c.Cookie(&fiber.Cookie{Name: ck.name, Value: op.vals[i], Path: "/", HTTPOnly: ck.httpOnly, Expires: time.Now().Add(-24 * time.Hour)})
		}
		return c.SendString("bye")
	})
	app.Get("/get", func(c fiber.Ctx) error {
		op := env.ops[atoi(c.Get("X-Op"))]
		op.seen = map[string]string{}
		for _, n := range op.cl.names {
			op.seen[n] = strings.Clone(c.Cookies(n))
		}
		return c.SendString("got")
	})
	app.Handler()
	return app
}

func (cl *ecClient) genValue(i int) (string, string) {
	s := cl.s
	k := s.Draw(6)
	if k == 3 && cl.longUsed {
		k = 2
	}
	switch k {
	case 0:
		return "val-" + strconv.Itoa(i) + "c" + strconv.Itoa(cl.id) + "-text-" + ecDrawString(s, ecB64, 3), "text"
	case 1:
		return "", "empty"
	case 2:
		return ecDrawString(s, ecPlain, s.Range(8, 48)), "octets"
	case 3:
		cl.longUsed = true
		return ecDrawString(s, ecPlain, s.Range(300, 1200)), "long"
	case 4:
		return base64.StdEncoding.EncodeToString([]byte(ecDrawString(s, ecPlain, s.Range(28, 45)))), "base64-like"
	default:
		return ecDrawString(s, ecPlain, s.Range(1, 7)), "short"
	}
}

func (cl *ecClient) setAll(list []*ecCookie, fail bool) *ecOp {
	op := &ecOp{cl: cl, sets: list, fail: fail, path: "/set", dup: cl.s.Chance(150), flipNext: cl.s.Chance(200)}
	for _, c := range list {
		op.vals = append(op.vals, c.plain)
	}
	return op
}

// do sends one request on *conn. A panic of the request is recovered here,
// as the connection goroutine of a server would; the connection is replaced.
func (cl *ecClient) do(conn **harness.Conn, b *harness.Browser, method, path string, op *ecOp) *harness.Resp {
	env, s := cl.env, cl.s
	op.cl = cl
	env.ops = append(env.ops, op)
	req := harness.Req{Method: method, Path: path, Headers: [][2]string{{"X-Op", strconv.Itoa(len(env.ops) - 1)}}}
	if h := b.Header(); h != "" {
		req.Headers = append(req.Headers, [2]string{"Cookie", h})
	}
	var resp *harness.Resp
	tid := simrt.TaskID()
	env.opOfTask[tid] = op
	env.inflight++
	if env.inflight > 1 && !env.overlapped {
		env.overlapped = true
		s.Count("probe_requests_overlapped")
	}
	func() {
		defer func() {
			if p := recover(); p != nil {
				resp = &harness.Resp{ReadErr: fmt.Errorf("request died")}
				old := *conn
				*conn = harness.NewConn(old.App, fmt.Sprintf("10.0.%d.9", cl.id))
				if op.encFailed {
					s.Count("probe_encryptor_error_killed_request")
					s.Logf("%s%s %s: the request died after the injected Encryptor error (no response)", cl.tag, method, path)
					return
				}
				s.Fail("C20.panic", "%s%s %s with %d cookies panicked: %v", cl.tag, method, path, len(b.Cookies), p)
				cl.dead = true
			}
		}()
		resp = (*conn).Do(req.Bytes())
	}()
	env.inflight--
	delete(env.opOfTask, tid)
	return resp
}

// wire: no response may carry the plaintext of an encrypted cookie, whatever its status.
func (cl *ecClient) wire(resp *harness.Resp, own []*ecCookie, label string) {
	if len(resp.Raw) == 0 {
		return
	}
	env, s := cl.env, cl.s
	for _, o := range env.clients {
		for _, c := range o.cookies {
			if c.except || len(c.plain) < 8 || !bytes.Contains(resp.Raw, []byte(c.plain)) {
				continue
			}
			legit := false
			for _, o2 := range env.clients {
				for _, e := range o2.cookies {
					if e.except && strings.Contains(e.plain, c.plain) {
						legit = true
					}
				}
			}
			if !legit {
				s.Fail("C20.plaintext-on-wire", "%s: the response (status %d) carries the plaintext of cookie %s (%s, %d bytes)", label, resp.Status, c.name, c.kind, len(c.plain))
			}
		}
	}
	// short plaintexts: compare the values of this response's own cookies
	if hr, err := resp.ParseStrict("POST"); err == nil {
		for _, hc := range hr.Cookies() {
			for _, c := range own {
				if !c.except && c.name == hc.Name && c.plain != "" && hc.Value == c.plain {
					s.Fail("C20.plaintext-on-wire", "%s: cookie %s reached the client (status %d) with the handler's plaintext (%s, %d bytes) as its value", label, c.name, resp.Status, c.kind, len(c.plain))
				}
			}
		}
	}
}

// issue: POST /set on an app, store the response in the browser, check the wire.
func (cl *ecClient) issue(conn **harness.Conn, list []*ecCookie, fail bool, current bool, label string) bool {
	return cl.issueAt("/set", conn, list, fail, current, label)
}

func (cl *ecClient) issueAt(path string, conn **harness.Conn, list []*ecCookie, fail bool, current bool, label string) bool {
	s, b := cl.s, cl.b
	label = cl.tag + label
	for attempt := 0; ; attempt++ {
		op := cl.setAll(list, fail)
		op.path = path
		resp := cl.do(conn, b, "POST", path, op)
		if cl.dead {
			return false
		}
		cl.wire(resp, list, label)
		if path == "/refresh" && len(op.decFailed) > 0 {
			// an injected Decryptor error during the refresh: the handler was (legitimately) given an empty
			// value and has set that; this client's cookies are no longer what the plan says
			s.Logf("%s: Decryptor error injected during the refresh; client ends", label)
			return false
		}
		if op.encFailed {
			// whatever came back, the cookies count as not issued; the server is asked again
			s.Logf("%s: Encryptor error injected, response status=%d bytes=%d; asking again", label, resp.Status, len(resp.Raw))
			if s.Failed() || attempt > 2 {
				return false
			}
			continue
		}
		if resp.ReadErr != nil {
			s.Fail("C20.harness", "%s: request not served: %v", label, resp.ReadErr)
			return false
		}
		hr, err := b.Apply(resp, "POST")
		if err != nil {
			s.Fail("C20.set-cookie-unparsable", "%s: a strict client cannot parse the response that sets %d cookies (it could without the middleware): %v", label, len(list), err)
			return false
		}
		// exactly the cookies the handler set
		var got, want []string
		for _, hc := range hr.Cookies() {
			got = append(got, hc.Name)
		}
		for _, c := range list {
			want = append(want, c.name)
		}
		if !sameMulti(got, want) && !(fail && len(got) == 0) {
			s.Fail("C20.response-cookie-set", "%s: the handler set the cookies %v, the response (status %d) carries %v", label, want, resp.Status, got)
			return false
		}
		var lens []string
		for _, c := range list {
			got, ok := b.Get(c.name)
			if !ok && fail {
				s.Count("probe_failing_handler_lost_cookies")
				return false
			}
			if !ok {
				s.Fail("C20.issued-cookie-missing", "%s: the response sets no cookie %s (status %d, %d Set-Cookie lines); the control app without the middleware did", label, c.name, resp.Status, len(resp.Header["Set-Cookie"]))
				return false
			}
			lens = append(lens, c.name+":"+strconv.Itoa(len(got)))
			if c.except {
				if got != c.plain {
					s.Fail("C20.except-out-changed", "%s: %s is in Except, the handler set %s (%d bytes), the client received %s", label, c.name, c.kind, len(c.plain), cl.class(got, ""))
				}
				if current {
					c.issued = got
				}
				continue
			}
			if current {
				if c.issued != "" {
					c.earlier = append(c.earlier, c.issued)
				}
				c.issued = got
				raw, err := base64.StdEncoding.DecodeString(got)
				if err != nil {
					raw = nil
				}
				cl.issues = append(cl.issues, &ecIssue{name: c.name, plain: c.plain, text: got, raw: raw})
			}
		}
		s.Logf("%s: status=%d stored value lengths %v fail=%v", label, resp.Status, lens, fail)
		return true
	}
}

// look: GET /get with the browser's current store and judge every cookie.
func (cl *ecClient) look(label, kind string, touched map[string]bool) {
	s, b := cl.s, cl.b
	label = cl.tag + label
	sent := map[string]string{}
	for _, c := range cl.cookies {
		sent[c.name], _ = b.Get(c.name)
	}
	op := &ecOp{}
	resp := cl.do(&cl.connCur, b, "GET", "/get", op)
	if cl.dead {
		return
	}
	if resp.ReadErr != nil || op.seen == nil {
		s.Fail("C20.harness", "%s: request not served (status %d): %v", label, resp.Status, resp.ReadErr)
		return
	}
	cl.wire(resp, nil, label)
	if n := len(resp.Header["Set-Cookie"]); n > 0 {
		s.Fail("C20.response-cookie-set", "%s: the handler set no cookie, the response carries %d Set-Cookie lines", label, n)
	}
	for _, c := range cl.cookies {
		seen, snt := op.seen[c.name], sent[c.name]
		cls := cl.class(seen, snt)
		verdict := "ok"
		switch {
		case c.except:
			if seen != snt {
				verdict = "BAD"
				s.Fail("C20.except-in-changed", "%s: %s is in Except, the client sent %d bytes (%s), the handler saw %s", label, c.name, len(snt), kind, cls)
			}
		case op.decFailed[snt]:
			// the Decryptor itself failed for this value: empty, or intact
			verdict = "decryptor-error"
			if seen != "" && !(snt == c.issued && seen == c.plain) {
				verdict = "BAD"
				s.Fail("C20.decryptor-error-other-text", "%s: the Decryptor failed for cookie %s (%d bytes sent), the handler saw %s", label, c.name, len(snt), cls)
			}
		case snt == c.issued && !touched[c.name]:
			if seen != c.plain {
				verdict = "BAD"
				s.Fail("C20.roundtrip", "%s: cookie %s (%s, %d bytes) was returned as issued, the handler saw %s", label, c.name, c.kind, len(c.plain), cls)
			}
		default:
			allowed := []string{""}
			why := "not issued under the current key"
			dec, err := base64.StdEncoding.DecodeString(snt)
			for _, is := range cl.issues {
				switch {
				case is.text == snt && is.name == c.name:
					allowed, why = []string{is.plain}, "a value issued for this name under the current key"
				case is.text == snt:
					allowed, why = []string{is.plain, ""}, "a value issued for "+is.name+" under the current key"
				case err == nil && is.raw != nil && bytes.Equal(dec, is.raw):
					allowed, why = []string{is.plain, ""}, "decodes to the ciphertext bytes issued for "+is.name
					s.Count("probe_alteration_decodes_to_issued_ciphertext")
				default:
					continue
				}
				break
			}
			okv := false
			for _, a := range allowed {
				if seen == a {
					okv = true
				}
			}
			if !okv {
				verdict = "BAD"
				id := map[string]string{"substitute": "C20.altered-accepted", "truncate": "C20.truncated-accepted", "extend": "C20.extended-accepted", "foreign-key": "C20.foreign-key-accepted",
					"forge": "C20.forged-accepted", "swap": "C20.swapped-other-text", "replay": "C20.roundtrip", "old-key": "C20.old-key-accepted"}[kind]
				if id == "" {
					id = "C20.altered-accepted"
				}
				s.Fail(id, "%s: cookie %s (%s, %d bytes; issued text %d bytes) came back as %d bytes that are %s; the handler saw %s", label, c.name, c.kind, len(c.plain), len(c.issued), len(snt), why, cls)
			}
		}
		s.Logf("%s: %s sent=%dB saw %s [%s]", label, c.name, len(snt), cls, verdict)
		cl.h.str(label).str(c.name).str(cls)
	}
}

// control: the values survive fiber + fasthttp + the browser without the middleware.
func (cl *ecClient) control(list []*ecCookie) bool {
	s := cl.s
	bc := harness.NewBrowser("control")
	resp := cl.do(&cl.connCtl, bc, "POST", "/set", cl.setAll(list, false))
	if cl.dead {
		return false
	}
	if _, err := bc.Apply(resp, "POST"); err != nil || resp.ReadErr != nil {
		s.Count("probe_control_response_unparsable")
		s.Logf("%scontrol: response not usable (%v / %v)", cl.tag, err, resp.ReadErr)
		return false
	}
	gop := &ecOp{}
	resp = cl.do(&cl.connCtl, bc, "GET", "/get", gop)
	ok := !cl.dead
	for _, c := range list {
		if resp.ReadErr != nil || gop.seen == nil || gop.seen[c.name] != c.plain {
			c.usable, ok = false, false
			s.Count("probe_control_value_not_round_tripped")
			s.Logf("%scontrol: value of %s (%s, %d bytes) does not survive without the middleware; not used", cl.tag, c.name, c.kind, len(c.plain))
		}
	}
	return ok
}

func (cl *ecClient) restore() {
	for _, c := range cl.cookies {
		cl.b.Set(c.name, c.issued)
	}
}

// run is the life of one browser against the current app.
func (cl *ecClient) run() {
	env, s, b := cl.env, cl.s, cl.b
	if len(cl.cookies) == 0 {
		return
	}
	// ---- issued before a key change ----
	if env.keyChange {
		if cl.issue(&cl.connOld, cl.cookies, false, false, "issue under the old key") {
			s.Count("fault_issued_before_key_change")
			if s.Chance(600) {
				// the old server has read them itself before it was replaced
				op := &ecOp{}
				resp := cl.do(&cl.connOld, b, "GET", "/get", op)
				if cl.dead {
					return
				}
				for _, c := range cl.cookies {
					if snt, _ := b.Get(c.name); resp.ReadErr == nil && op.seen != nil && op.seen[c.name] != c.plain {
						s.Fail("C20.roundtrip", "%sunder the old key: cookie %s (%s, %d bytes) was returned as issued, the handler saw %s", cl.tag, c.name, c.kind, len(c.plain), cl.class(op.seen[c.name], snt))
					}
				}
				s.Count("probe_old_server_read_its_cookies_before_key_change")
			}
			t := map[string]bool{}
			for _, c := range cl.cookies {
				t[c.name] = true
			}
			cl.look("after the key change", "old-key", t)
		}
		if cl.dead {
			return
		}
	}

	// ---- issue, untouched round trip, re-issue ----
	if !cl.issue(&cl.connCur, cl.cookies, cl.plan.failAfterSet, true, "issue") {
		return
	}
	cl.look("untouched", "none", nil)
	if cl.plan.refresh {
		// the handler sets the cookies it was given again (same values): they are issued anew
		if !cl.issueAt("/refresh", &cl.connCur, cl.cookies, false, true, "refresh (handler re-sets the values it received)") {
			return
		}
		s.Count("probe_cookies_refreshed_with_unchanged_values")
		cl.look("untouched after refresh", "none", nil)
	}
	if cl.plan.reissue {
		var sub []*ecCookie
		for i, c := range cl.cookies {
			if s.Chance(600) {
				c.plain, c.kind = cl.genValue(10 + i)
				sub = append(sub, c)
			}
		}
		if len(sub) > 0 {
			if !cl.control(sub) {
				s.Logf("%scontrol: a re-issued value does not survive without the middleware; client ends", cl.tag)
				return
			}
			if !cl.issue(&cl.connCur, sub, false, true, "re-issue of "+strconv.Itoa(len(sub))) {
				return
			}
			cl.look("untouched after re-issue", "none", nil)
		}
	}

	// ---- alterations by the untrusted peer ----
	if env.faults {
		for step := 0; step < cl.plan.nsteps && !s.Failed() && !cl.dead; step++ {
			cl.restore()
			ti := s.Draw(len(cl.cookies))
			c := cl.cookies[ti]
			text := c.issued
			kind := cl.plan.stepKinds[step]
			var desc string
			var nt string
			touched := map[string]bool{c.name: true}
			switch kind {
			case "substitute":
				if len(text) == 0 {
					continue
				}
				pos := s.Draw(len(text))
				if s.Chance(300) {
					pos = len(text) - 1 - s.Draw(min(4, len(text)))
				}
				orig := text[pos]
				idx := strings.IndexByte(ecB64, orig)
				if idx >= 0 && !s.Chance(250) {
					mask := 1 + s.Draw(63)
					nt = text[:pos] + string(ecB64[idx^mask]) + text[pos+1:]
					desc = fmt.Sprintf("base64 digit %d of %d xor %#02x", pos, len(text), mask)
				} else {
					k := s.Draw(len(ecOther))
					if ecOther[k] == orig {
						k = (k + 1) % len(ecOther)
					}
					nt = text[:pos] + string(ecOther[k]) + text[pos+1:]
					desc = fmt.Sprintf("byte %d of %d replaced by %q", pos, len(text), ecOther[k])
				}
			case "truncate":
				if len(text) == 0 {
					continue
				}
				switch s.Draw(3) {
				case 0:
					l := s.Draw(len(text))
					nt, desc = text[:l], fmt.Sprintf("first %d of %d bytes kept", l, len(text))
				case 1:
					l := len(text) - 1 - s.Draw(min(4, len(text)))
					nt, desc = text[:l], fmt.Sprintf("first %d of %d bytes kept", l, len(text))
				default:
					l := 1 + s.Draw(min(len(text), 24))
					nt, desc = text[l:], fmt.Sprintf("first %d of %d bytes dropped", l, len(text))
				}
			case "extend":
				add := ecDrawString(s, ecB64+"=="+"-_", s.Range(1, 4))
				if s.Chance(300) {
					nt, desc = add+text, fmt.Sprintf("%q put before the %d bytes", add, len(text))
				} else {
					nt, desc = text+add, fmt.Sprintf("%q appended to the %d bytes", add, len(text))
				}
			case "foreign-key":
				p := c.plain
				if s.Chance(300) {
					p = "admin"
				}
				v, err := encryptcookie.EncryptCookie(p, env.otherKey)
				if err != nil {
					s.Fail("C20.harness", "EncryptCookie with a %d byte key: %v", env.otherLen, err)
					return
				}
				nt, desc = v, fmt.Sprintf("%d bytes plaintext encrypted under the foreign %d byte key", len(p), env.otherLen)
			case "forge":
				switch s.Draw(3) {
				case 0:
					n := simrt.PickS(s, 28, 0, 5, 12, 16, 40, 64)
					nt = base64.StdEncoding.EncodeToString([]byte(ecDrawString(s, ecPlain, n)))
					desc = fmt.Sprintf("base64 of %d arbitrary bytes", n)
				case 1:
					nt, desc = "admin", "the bare text admin"
				default:
					nt = ecDrawString(s, ecPlain, s.Range(1, 60))
					desc = fmt.Sprintf("%d arbitrary cookie octets", len(nt))
				}
			case "swap":
				if len(cl.cookies) < 2 {
					continue
				}
				oj := (ti + 1 + s.Draw(len(cl.cookies)-1)) % len(cl.cookies)
				o := cl.cookies[oj]
				if o.issued == c.issued {
					continue
				}
				b.Set(o.name, c.issued)
				touched[o.name] = true
				nt, desc = o.issued, fmt.Sprintf("issued values of %s and %s exchanged", c.name, o.name)
			case "replay":
				if len(c.earlier) == 0 || c.earlier[len(c.earlier)-1] == c.issued {
					continue
				}
				nt, desc = c.earlier[len(c.earlier)-1], "the value issued before the current one"
			}
			if nt == text {
				continue
			}
			b.Set(c.name, nt)
			s.Count("fault_" + strings.ReplaceAll(kind, "-", "_"))
			if !c.except {
				cl.altered++
			} else {
				s.Count("probe_alteration_of_excepted_cookie")
			}
			label := fmt.Sprintf("step%d %s on %s (%s)", step, kind, c.name, desc)
			cl.h.str(kind).int(ti)
			cl.look(label, kind, touched)
		}
	}
	// ---- logout: value and a past expiry in one Set-Cookie; still nothing but ciphertext on the wire ----
	if cl.plan.logout && !s.Failed() && !cl.dead {
		op := cl.setAll(cl.cookies, false)
		op.path = "/logout"
		op.rawLine = simrt.PickS(s, 0, 0, 1, 2)
		if op.rawLine > 0 {
			s.Count("probe_set_cookie_line_written_by_hand")
		}
		resp := cl.do(&cl.connCur, b, "POST", "/logout", op)
		if cl.dead {
			return
		}
		if !op.encFailed && resp.ReadErr == nil {
			cl.wire(resp, cl.cookies, cl.tag+"logout (cookies re-sent with an expiry in the past)")
			s.Count("probe_cookie_set_with_past_expiry")
		}
		return
	}
	// ---- sweep: every position and every length of one short issued value ----
	if cl.plan.sweep && !s.Failed() && !cl.dead {
		var c *ecCookie
		for _, k := range cl.cookies {
			if !k.except && len(k.issued) > 0 && len(k.issued) <= 160 {
				c = k
				break
			}
		}
		if c != nil {
			text := c.issued
			s.Count("probe_sweep_runs")
			for pos := 0; pos < len(text) && !s.Failed() && !cl.dead; pos++ {
				cl.restore()
				var nt, desc string
				if idx := strings.IndexByte(ecB64, text[pos]); idx >= 0 {
					mask := 1 + s.Draw(63)
					nt, desc = text[:pos]+string(ecB64[idx^mask])+text[pos+1:], fmt.Sprintf("base64 digit %d of %d xor %#02x", pos, len(text), mask)
				} else {
					k := s.Draw(len(ecB64))
					nt, desc = text[:pos]+string(ecB64[k])+text[pos+1:], fmt.Sprintf("padding byte %d of %d replaced by digit %d", pos, len(text), k)
				}
				b.Set(c.name, nt)
				s.Count("fault_substitute")
				cl.altered++
				cl.look(fmt.Sprintf("sweep substitute on %s (%s)", c.name, desc), "substitute", map[string]bool{c.name: true})
			}
			for l := 0; l < len(text) && !s.Failed() && !cl.dead; l++ {
				cl.restore()
				b.Set(c.name, text[:l])
				s.Count("fault_truncate")
				cl.altered++
				cl.look(fmt.Sprintf("sweep truncate on %s (first %d of %d bytes kept)", c.name, l, len(text)), "truncate", map[string]bool{c.name: true})
			}
		}
	}
}

func enccookieMain(s *simrt.Sim, info *harness.RunInfo) {
	s.SetPreempt(0)
	faults := s.Chance(500)
	info.Faults = faults
	env := &ecEnv{s: s, opOfTask: map[int]*ecOp{}, faults: faults}
	// the plan of the run comes first on the tape, the bulk (keys, values,
	// positions) afterwards: minimised tapes stay aligned
	keyLen := simrt.PickS(s, 32, 16, 24)
	env.otherLen = simrt.PickS(s, 32, 16, 24)
	oldLen := simrt.PickS(s, 32, 16, 24)
	env.keyChange = (faults && s.Chance(250)) || (!faults && s.Chance(150))
	concurrent := s.Chance(350)
	nclients := 1
	if concurrent {
		nclients = s.Range(2, 3)
	}
	preempt := 0
	if concurrent {
		preempt = simrt.PickS(s, 150, 50, 400, 0)
		env.sleepPm = simrt.PickS(s, 200, 0, 500)
	}
	encFault := faults && s.Chance(250)
	decFault := faults && s.Chance(150)
	if encFault {
		env.failEncAt = 1 + s.Draw(8)
	}
	if decFault {
		env.failDecAt = 1 + s.Draw(12)
	}
	wrapped := concurrent || encFault || decFault || s.Chance(250)
	env.yields = concurrent || (wrapped && s.Chance(300))
	env.dirtyErr = wrapped && s.Chance(400)
	exceptAny := s.Chance(400)
	env.useNext = s.Chance(300)
	plans := make([]ecPlan, nclients)
	for i := range plans {
		p := &plans[i]
		p.failAfterSet = s.Chance(150)
		p.reissue = s.Chance(300)
		p.refresh = s.Chance(300)
		p.sweep = faults && s.Chance(120)
		p.logout = !p.sweep && s.Chance(150)
		p.nsteps = s.Range(1, 6)
		for j := 0; j < 6; j++ {
			p.stepKinds = append(p.stepKinds, simrt.PickS(s, "substitute", "truncate", "extend", "foreign-key", "forge", "swap", "replay", "substitute", "truncate"))
		}
		p.ncook = s.Range(1, 4)
	}
	env.key = ecKey(s, keyLen)
	env.otherKey = ecKey(s, env.otherLen)
	env.oldKey = ecKey(s, oldLen)
	if env.otherKey == env.key || env.oldKey == env.key {
		// all-zero tapes: keep the keys different
		env.otherKey = base64.StdEncoding.EncodeToString(bytes.Repeat([]byte{0x5a}, env.otherLen))
		env.oldKey = base64.StdEncoding.EncodeToString(bytes.Repeat([]byte{0xa5}, oldLen))
	}

	pool := []string{"sid", "sid2", "s", "token", "c_k-1", "x-y.z", "prefs", "A"}
	suffix := []string{"", ".b", ".c"}
	var cl strings.Builder
	for ci := 0; ci < nclients; ci++ {
		c := &ecClient{env: env, s: s, id: ci, plan: plans[ci], h: newHasher(), b: harness.NewBrowser("b" + strconv.Itoa(ci))}
		if nclients > 1 {
			c.tag = "client" + strconv.Itoa(ci) + " "
		}
		start := s.Draw(len(pool))
		for i := 0; i < c.plan.ncook; i++ {
			ck := &ecCookie{name: pool[(start+i*simrt.PickS(s, 1, 3, 5))%len(pool)] + suffix[ci], usable: true}
			if s.Chance(100) {
				// a long name (64 bytes and more): the length is part of what a name is compared by
				ck.name = strings.Repeat("x", simrt.PickS(s, 60, 61, 76, 124)) + "-" + ck.name
			}
			dup := false
			for _, o := range c.cookies {
				if o.name == ck.name {
					dup = true
				}
			}
			if dup {
				continue
			}
			if exceptAny && s.Chance(350) {
				ck.except = true
				env.except = append(env.except, ck.name)
			}
			ck.httpOnly = s.Chance(300)
			ck.maxAge = simrt.PickS(s, 0, 3600)
			c.cookies = append(c.cookies, ck)
		}
		for i, ck := range c.cookies {
			ck.plain, ck.kind = c.genValue(i)
			fmt.Fprintf(&cl, " %s(except=%v %s/%d httpOnly=%v maxAge=%d)", ck.name, ck.except, ck.kind, len(ck.plain), ck.httpOnly, ck.maxAge)
		}
		env.clients = append(env.clients, c)
	}
	if exceptAny && s.Chance(300) {
		env.except = append(env.except, "never-set")
	}
	cfgLine := fmt.Sprintf("faults=%v key=%dB foreign=%dB old=%dB keyChange=%v clients=%d preempt=%d sleep=%d wrapped=%v yields=%v failEncAt=%d failDecAt=%d except=%v cookies:%s",
		faults, keyLen, env.otherLen, oldLen, env.keyChange, nclients, preempt, env.sleepPm, wrapped, env.yields, env.failEncAt, env.failDecAt, env.except, cl.String())
	s.Logf("cfg %s", cfgLine)

	// ---- apps: one middleware instance for all clients ----
	env.appCur, env.appCtl = env.mkApp(env.key, wrapped), env.mkApp("", false)
	if env.keyChange {
		env.appOld = env.mkApp(env.oldKey, false)
	}
	for _, c := range env.clients {
		c.connCur = harness.NewConn(env.appCur, fmt.Sprintf("10.0.%d.1", c.id))
		c.connCtl = harness.NewConn(env.appCtl, fmt.Sprintf("10.0.%d.2", c.id))
		if env.keyChange {
			c.connOld = harness.NewConn(env.appOld, fmt.Sprintf("10.0.%d.3", c.id))
		}
	}

	// ---- control, sequentially ----
	for _, c := range env.clients {
		for _, ck := range c.cookies {
			c.names = append(c.names, ck.name)
		}
		c.control(c.cookies)
		c.names = nil
		var use []*ecCookie
		for _, ck := range c.cookies {
			if ck.usable {
				use = append(use, ck)
				c.names = append(c.names, ck.name)
			}
		}
		c.cookies = use
	}

	// ---- workload ----
	if concurrent {
		s.SetPreempt(preempt)
		var wg sync.WaitGroup
		for _, c := range env.clients {
			wg.Add(1)
			c := c
			simrt.GoNamed("browser"+strconv.Itoa(c.id), func() {
				defer wg.Done()
				c.run()
			})
		}
		join(&wg)
		s.SetPreempt(0)
	} else {
		env.clients[0].run()
	}

	h := newHasher().str(cfgLine)
	altered := 0
	for _, c := range env.clients {
		h.str(strconv.FormatUint(c.h.h, 16))
		altered += c.altered
	}
	info.StateHash = h.h
	info.Nontrivial = altered > 0 || env.fired > 0 || env.overlapped
	info.Sample = map[string]any{"config": cfgLine, "alterations": altered, "requests": len(env.ops)}
}
