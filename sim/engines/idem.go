package engines

import (
	"errors"
	"fmt"
	"sort"
	"strconv"
	"strings"
	"sync"
	"time"

	"github.com/gofiber/fiber/v3"
	"github.com/gofiber/fiber/v3/middleware/idempotency"
	"github.com/gofiber/fiber/v3/simexport"

	"verif.local/sim/harness"
	"verif.local/sim/simrt"
)

// C17 — idempotency middleware (DESIGN.md 3.9 / A.5).

func init() {
	harness.Register(&harness.Engine{
		Name: "idem", Property: "C17", Level: "exploration",
		Main:       idemMain,
		MaxSimTime: 3 * time.Hour,
		Rule: "per run the tape draws storage (SimStorage with optional Get/Set faults and delays / in-repo memory storage), locker (MemoryLock / fault-injecting wrapper around it), Lifetime, KeepResponseHeaders, preemption rate, " +
			"2-6 clients x 1-4 requests over 1-3 idempotency keys (plus requests without key and with safe methods); handlers have unique execution numbers, multi-valued headers, empty bodies, errors and durations; " +
			"distinct = hash of (configuration, per request (key, executed / replayed-which-execution / error)); non-trivial = at least two requests with the same key overlapped, or a fault fired",
		Assumptions: []string{
			"a fault-injecting locker fails before locking (Lock) or after unlocking (Unlock): a lock that is never released is not a fault the middleware can survive",
			"after an injected Set failure for a key (the client got a 5xx) only 'never a wrong answer' is required for that key",
			"executions of one key separated by more than Lifetime-2 s are allowed (coarse storage clock)",
		},
		Components: map[string]string{
			"idempotency middleware, MemoryLock, msgp codec": "real (instrumented)",
			"internal/storage/memory + GC":                   "real (instrumented), chosen per run",
			"external storage":                               "stub SimStorage with error / delay injection",
			"fault-injecting locker":                         "stub wrapper around the real MemoryLock",
			"fasthttp accept loop / worker pool":             "stub (harness.Conn); codecs real",
		},
	})
}

type idemExec struct {
	n        int
	op       *idemOp
	start    time.Time
	end      time.Time
	ok       bool
	finished bool
}

type idemOp struct {
	id, client int
	method     string
	key        string // "" = none
	fail       bool   // handler returns an error
	status     int
	body       string
	multi      []string
	single     string
	durMs      int
	// observed
	issue, ret   uint64
	issueT, retT time.Time
	execs        []*idemExec
	rstatus      int
	rbody        string
	rmulti       []string
	rsingle      string
	rexec        string
	lockErr      bool
	getErr       bool
	setErr       bool
	returned     bool
}

type simLocker struct {
	s        *simrt.Sim
	holders  map[string]int
	inner    idempotency.Locker
	failLock int
	failUnl  int
	cur      func() *idemOp
}

func (l *simLocker) Lock(key string) error {
	simrt.Yield(400)
	if l.failLock > 0 && l.s.Chance(l.failLock) {
		l.s.Count("fault_lock_error")
		if op := l.cur(); op != nil {
			op.lockErr = true
		}
		return harness.ErrInjected
	}
	err := l.inner.Lock(key)
	if err == nil {
		// Locker contract: between Lock returning and Unlock being called
		// nobody else holds the key
		l.holders[key]++
		if l.holders[key] > 1 {
			l.s.Fail("C17.lock-exclusive", "MemoryLock handed key %q to %d holders at once", key, l.holders[key])
		}
	}
	simrt.Yield(401)
	return err
}

func (l *simLocker) Unlock(key string) error {
	simrt.Yield(402)
	l.holders[key]--
	err := l.inner.Unlock(key)
	if l.failUnl > 0 && l.s.Chance(l.failUnl) {
		l.s.Count("fault_unlock_error")
		return harness.ErrInjected
	}
	return err
}

func idemMain(s *simrt.Sim, info *harness.RunInfo) {
	faults := s.Chance(500)
	info.Faults = faults
	useSim := faults || s.Chance(500)
	lifetime := simrt.PickS(s, 30*time.Minute, 3*time.Second, 6*time.Second)
	keepMode := s.Draw(3) // 0 all, 1 subset incl. multi, 2 subset without single
	nkeys := s.Range(1, harness.Scale(3, 4))
	nclients := s.Range(2, harness.Scale(6, 9))
	preempt := simrt.PickS(s, 150, 0, 50, 400)
	failPermille := simrt.PickS(s, 150, 0, 500)
	dense := s.Chance(400) // requests packed into the first seconds, handlers never instantaneous
	harness.StartCoarseClock(s, 0)

	var ops []*idemOp
	opOfTask := map[int]*idemOp{} // task -> request in flight
	running := func() *idemOp { return opOfTask[simrt.TaskID()] }

	// spelling of header names: in the configuration and in the handler, independently; with
	// DisableHeaderNormalizing the handler's spelling is what goes into the response
	spellOf := func(k int) func(string) string {
		return [](func(string) string){func(n string) string { return n }, strings.ToLower, strings.ToUpper}[k]
	}
	cfgSpell, hdlSpell := s.Draw(3), s.Draw(3)
	disableNorm := s.Chance(250)
	csp, hsp := spellOf(cfgSpell), spellOf(hdlSpell)
	cfg := idempotency.Config{Lifetime: lifetime}
	// the header carrying the key and its syntax check are configurable
	keyHeader := simrt.PickS(s, "X-Idempotency-Key", "X-Idempotency-Key", "Idempotency-Key")
	customValidate := s.Chance(250)
	if keyHeader != "X-Idempotency-Key" {
		cfg.KeyHeader = keyHeader
	}
	if customValidate {
		cfg.KeyHeaderValidate = func(k string) error {
			if !strings.HasPrefix(k, "key-") {
				return errors.New("malformed idempotency key")
			}
			return nil
		}
	}
	switch keepMode {
	case 1:
		cfg.KeepResponseHeaders = []string{csp("X-Exec"), csp("X-Multi"), csp("X-Single"), csp("Content-Type")}
	case 2:
		cfg.KeepResponseHeaders = []string{csp("X-Exec"), csp("X-Multi")}
	}
	var sim *harness.SimStorage
	var keyGuard *harness.KeyGuard
	if useSim {
		sim = harness.NewSimStorage(s, "idem-store")
		sim.KeyOracle = "C17.storage-key-aliases-request-buffer"
		if faults {
			sim.FailGet = simrt.PickS(s, 0, 60, 150)
			sim.FailSet = simrt.PickS(s, 0, 100, 250)
			if s.Chance(300) {
				sim.DelayPermille = 200
				long := lifetime + time.Second
				if long > 8*time.Second {
					long = 4 * time.Second
				}
				sim.Delays = []time.Duration{500 * time.Millisecond, long}
			}
		}
		cfg.Storage = sim
	} else {
		keyGuard = harness.NewKeyGuard(s, simexport.NewMemoryStorageGC(lifetime/2), "C17.storage-key-aliases-request-buffer")
		cfg.Storage = keyGuard
	}
	var lk *simLocker
	if faults || s.Chance(300) {
		lk = &simLocker{s: s, inner: idempotency.NewMemoryLock(), holders: map[string]int{}}
		if faults {
			lk.failLock = simrt.PickS(s, 0, 80, 200)
			lk.failUnl = simrt.PickS(s, 0, 100)
		}
		cfg.Lock = lk
	}
	cfgLine := fmt.Sprintf("faults=%v storage=%s lifetime=%v keep=%d keys=%d clients=%d preempt=%d locker=%v failPermille=%d dense=%v spelling=%d/%d noNormalizing=%v keyHeader=%s customValidate=%v", faults,
		map[bool]string{false: "storage-memory", true: "sim"}[useSim], lifetime, keepMode, nkeys, nclients, preempt, lk != nil, failPermille, dense, cfgSpell, hdlSpell, disableNorm, keyHeader, customValidate)
	s.Logf("cfg %s", cfgLine)

	nexec := 0
	var execs []*idemExec
	// EnableSplittingOnParsers concerns the binders of the application; the stored response is none of their business
	splitting := s.Chance(250)
	app := fiber.New(fiber.Config{DisableHeaderNormalizing: disableNorm, EnableSplittingOnParsers: splitting})
	if disableNorm && hdlSpell != 0 {
		s.Count("probe_non_canonical_response_header_names")
	}
	// an upstream middleware that is still busy after the chain returned: the replayed
	// or recorded response is not on the wire yet while other requests are served
	lateUpstream := s.Chance(400)
	app.Use(func(c fiber.Ctx) error {
		err := c.Next()
		if lateUpstream {
			simrt.Yield(410)
			if s.Chance(300) {
				simrt.Sleep(time.Millisecond)
			}
		}
		return err
	})
	app.Use(idempotency.New(cfg))
	app.All("/do", func(c fiber.Ctx) error {
		op := ops[atoi(c.Get("X-Op"))]
		nexec++
		ex := &idemExec{n: nexec, op: op, start: time.Now()}
		execs = append(execs, ex)
		op.execs = append(op.execs, ex)
		s.Logf("op%d handler exec#%d key=%q", op.id, ex.n, op.key)
		simrt.Yield(403)
		if op.durMs > 0 {
			simrt.Sleep(time.Duration(op.durMs) * time.Millisecond)
		}
		ex.end = time.Now()
		ex.finished = true
		if op.fail {
			s.Logf("op%d exec#%d returns an error", op.id, ex.n)
			return fiber.NewError(503, "handler failed")
		}
		ex.ok = true
		c.Set(hsp("X-Exec"), strconv.Itoa(ex.n))
		for _, v := range op.multi {
			c.Response().Header.Add(hsp("X-Multi"), v)
		}
		if op.single != "" {
			c.Set(hsp("X-Single"), op.single)
		}
		c.Status(op.status)
		if op.body == "" {
			return nil
		}
		return c.SendString(op.body + "-exec" + strconv.Itoa(ex.n))
	})
	app.Handler()

	keyName := func(i int) string {
		if customValidate && i%2 == 1 {
			return fmt.Sprintf("key-short-%d", i) // legal under the custom syntax check only
		}
		return fmt.Sprintf("key-%032d", i)
	}
	type plan struct {
		think []time.Duration
		ops   []*idemOp
	}
	plans := make([]plan, nclients)
	for ci := range plans {
		n := s.Range(1, harness.Scale(4, 7))
		for j := 0; j < n; j++ {
			op := &idemOp{id: len(ops), client: ci, method: "POST", key: keyName(s.Draw(nkeys)), status: simrt.PickS(s, 200, 201, 202)}
			if s.Chance(120) {
				op.key = ""
			}
			if s.Chance(100) {
				op.method = "GET"
			} else if s.Chance(350) {
				// every method that is not safe is guarded, whether or not HTTP calls it idempotent
				op.method = simrt.PickS(s, "PUT", "DELETE", "PATCH")
				s.Count("probe_guarded_method_other_than_post")
			}
			if s.Chance(failPermille) {
				op.fail = true
			}
			if !s.Chance(200) {
				op.body = "body" + strconv.Itoa(op.id)
			}
			switch s.Draw(3) {
			case 1:
				op.multi = []string{"a" + strconv.Itoa(op.id), "b"}
			case 2:
				op.multi = []string{"m" + strconv.Itoa(op.id)}
			}
			if s.Chance(500) {
				op.single = "s" + strconv.Itoa(op.id)
				if s.Chance(300) {
					// a value with commas (a date, a list): it is one value and must come back as one
					op.single = "s" + strconv.Itoa(op.id) + ", Thu, 01 Jan 2026 00:00:00 GMT; a=b,c"
				}
			}
			op.durMs = simrt.PickS(s, 0, 0, 300, 1500)
			think := simrt.PickS(s, 0, 0, 400*time.Millisecond, lifetime+2*time.Second)
			if dense {
				op.durMs = simrt.PickS(s, 300, 700, 1500)
				think = simrt.PickS(s, 0, 200*time.Millisecond, 500*time.Millisecond, 900*time.Millisecond, 1600*time.Millisecond)
			}
			ops = append(ops, op)
			plans[ci].ops = append(plans[ci].ops, op)
			plans[ci].think = append(plans[ci].think, think)
		}
	}
	if lk != nil {
		lk.cur = running
	}
	if sim != nil {
		sim.OnFault = func(op string) {
			r := running()
			if r == nil {
				return
			}
			switch op {
			case "get":
				r.getErr = true
			case "set":
				r.setErr = true
			}
		}
	}
	s.SetPreempt(preempt)
	var wg sync.WaitGroup
	for ci := range plans {
		wg.Add(1)
		p := plans[ci]
		simrt.GoNamed("client"+strconv.Itoa(ci), func() {
			defer wg.Done()
			conn := harness.NewConn(app, "10.0.0."+strconv.Itoa(ci+1))
			for j, op := range p.ops {
				if p.think[j] > lifetime && lifetime > time.Minute {
					simrt.Sleep(time.Second)
				} else {
					simrt.Sleep(p.think[j])
				}
				req := harness.Req{Method: op.method, Path: "/do", Headers: [][2]string{{"X-Op", strconv.Itoa(op.id)}}}
				if op.key != "" {
					req.Headers = append(req.Headers, [2]string{keyHeader, op.key})
				}
				op.issue, op.issueT = s.Stamp(), time.Now()
				opOfTask[simrt.TaskID()] = op
				s.Logf("op%d issue %s key=%q fail=%v dur=%d", op.id, op.method, op.key, op.fail, op.durMs)
				resp := conn.Do(req.Bytes())
				op.ret, op.retT = s.Stamp(), time.Now()
				op.returned = true
				op.rstatus, op.rbody = resp.Status, string(resp.Body)
				op.rmulti, op.rsingle, op.rexec = resp.Values("X-Multi"), resp.GetFold("X-Single"), resp.GetFold("X-Exec")
				s.Logf("op%d ret status=%d body=%q exec=%q multi=%v single=%q", op.id, op.rstatus, op.rbody, op.rexec, op.rmulti, op.rsingle)
			}
		})
	}
	join(&wg)
	s.SetPreempt(0)
	if keyGuard != nil {
		keyGuard.Check("at the end of the run")
	}
	if s.Failed() {
		return
	}

	// ---- oracles ----
	h := newHasher().str(cfgLine)
	overlap := false
	for i, a := range ops {
		for _, b := range ops[i+1:] {
			if a.client != b.client && a.key != "" && a.key == b.key && a.issue < b.ret && b.issue < a.ret {
				overlap = true
			}
		}
	}
	byN := map[string]*idemExec{}
	for _, ex := range execs {
		byN[strconv.Itoa(ex.n)] = ex
	}
	keepSingle := keepMode != 2
	setFailedAt := map[string]time.Time{} // key -> first injected Set failure
	for _, op := range ops {
		if op.setErr && op.key != "" {
			if t, ok := setFailedAt[op.key]; !ok || op.retT.Before(t) {
				setFailedAt[op.key] = op.issueT
			}
		}
	}
	for _, op := range ops {
		if !op.returned {
			s.Fail("C17.progress", "op%d never returned", op.id)
			continue
		}
		guarded := op.key != "" && op.method != "GET"
		class := "own"
		switch {
		case !guarded:
			// unaffected: exactly one execution, own answer
			if len(op.execs) != 1 {
				s.Fail("C17.unaffected", "op%d (%s, key %q) must run its handler exactly once, ran %d times", op.id, op.method, op.key, len(op.execs))
				continue
			}
			idemCheckOwn(s, op)
		case op.lockErr || (op.getErr && len(op.execs) == 0):
			class = "fault-error"
			if op.rstatus < 500 {
				s.Fail("C17.fault-error", "op%d: lock or lookup failed (lock=%v get=%v) but the client got status %d", op.id, op.lockErr, op.getErr, op.rstatus)
			}
			if op.lockErr && len(op.execs) > 0 {
				s.Fail("C17.fault-no-exec", "op%d: lock acquisition failed, yet the handler ran for it", op.id)
			}
		case op.getErr:
			// a lookup failed at one of the two checks; the handler may only have
			// run if the failing lookup came after... it cannot: both lookups precede it
			class = "fault-error"
			s.Fail("C17.fault-no-exec", "op%d: a lookup failed, yet the handler ran for it", op.id)
		case len(op.execs) > 1:
			s.Fail("C17.at-most-once", "op%d ran its handler %d times", op.id, len(op.execs))
		case len(op.execs) == 1:
			if op.setErr {
				class = "set-error"
				if op.execs[0].ok && op.rstatus < 500 {
					s.Fail("C17.fault-error", "op%d: storing the response failed but the client got status %d", op.id, op.rstatus)
				}
			} else {
				idemCheckOwn(s, op)
			}
		default:
			// replayed
			ex := byN[op.rexec]
			class = "replay"
			if ex == nil || !ex.ok {
				s.Fail("C17.same-answer", "op%d (key %q) got status %d body %q X-Exec=%q without running the handler: not the answer of any successful execution", op.id, op.key, op.rstatus, op.rbody, op.rexec)
				continue
			}
			x := ex.op
			if x.key != op.key {
				s.Fail("C17.same-answer", "op%d (key %q) was answered with exec#%d of op%d (key %q)", op.id, op.key, ex.n, x.id, x.key)
			}
			wantBody := ""
			if x.body != "" {
				wantBody = x.body + "-exec" + strconv.Itoa(ex.n)
			}
			if op.rstatus != x.status || op.rbody != wantBody || !sameMulti(op.rmulti, x.multi) {
				s.Fail("C17.same-answer", "op%d replay of exec#%d differs: status %d/%d body %q/%q X-Multi %v/%v", op.id, ex.n, op.rstatus, x.status, op.rbody, wantBody, op.rmulti, x.multi)
			}
			if keepSingle && op.rsingle != x.single {
				s.Fail("C17.same-answer", "op%d replay of exec#%d: kept header X-Single=%q, execution sent %q", op.id, ex.n, op.rsingle, x.single)
			}
			if !ex.end.Before(op.retT) && ex.end != op.retT {
				s.Fail("C17.same-answer", "op%d was answered with exec#%d before that execution finished", op.id, ex.n)
			}
			class += "#" + strconv.Itoa(ex.n)
		}
		h.str(op.key).str(class)
	}
	// at most one successful completion per key and lifetime
	perKey := map[string][]*idemExec{}
	for _, ex := range execs {
		if ex.ok && ex.op.key != "" && ex.op.method != "GET" && !ex.op.setErr {
			perKey[ex.op.key] = append(perKey[ex.op.key], ex)
		}
	}
	for k, list := range perKey {
		sort.Slice(list, func(i, j int) bool { return list[i].n < list[j].n })
		for i := 1; i < len(list); i++ {
			a, b := list[i-1], list[i]
			if t, bad := setFailedAt[k]; bad && !b.op.issueT.Before(t) {
				continue
			}
			// Storage delays longer than the lifetime can make a stored response
			// expire before anybody could read it; only count pairs whose second
			// request was issued within the lifetime of the first's completion
			if b.op.issueT.Sub(a.op.retT) < lifetime-2*time.Second && b.start.Sub(a.op.retT) < lifetime-2*time.Second {
				s.Fail("C17.at-most-once", "key %q: exec#%d (op%d, returned %s) and exec#%d (op%d, issued %s, handler started %s) both completed successfully within the lifetime %v",
					k, a.n, a.op.id, a.op.retT.Format("04:05.000"), b.n, b.op.id, b.op.issueT.Format("04:05.000"), b.start.Format("04:05.000"), lifetime)
			}
		}
	}
	if overlap {
		s.Count("probe_same_key_requests_overlapped")
	}
	info.StateHash = h.h
	info.Nontrivial = overlap || s.Counters["fault_lock_error"]+s.Counters["fault_storage_get_error"]+s.Counters["fault_storage_set_error"] > 0
	info.Sample = map[string]any{"config": cfgLine, "ops": len(ops), "executions": len(execs)}
}

func sameMulti(a, b []string) bool {
	x := append([]string(nil), a...)
	y := append([]string(nil), b...)
	sort.Strings(x)
	sort.Strings(y)
	return strings.Join(x, "\x00") == strings.Join(y, "\x00")
}

// idemCheckOwn: the request ran its handler once and must get that answer.
func idemCheckOwn(s *simrt.Sim, op *idemOp) {
	ex := op.execs[0]
	if op.fail {
		if op.rstatus != 503 {
			s.Fail("C17.own-answer", "op%d: handler returned a 503 error, client got %d", op.id, op.rstatus)
		}
		return
	}
	wantBody := ""
	if op.body != "" {
		wantBody = op.body + "-exec" + strconv.Itoa(ex.n)
	}
	if op.rstatus != op.status || op.rbody != wantBody || op.rexec != strconv.Itoa(ex.n) || !sameMulti(op.rmulti, op.multi) || op.rsingle != op.single {
		s.Fail("C17.own-answer", "op%d ran exec#%d but got status %d/%d body %q/%q X-Exec %q X-Multi %v/%v X-Single %q/%q", op.id, ex.n, op.rstatus, op.status, op.rbody, wantBody, op.rexec, op.rmulti, op.multi, op.rsingle, op.single)
	}
}
