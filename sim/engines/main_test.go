package engines

import (
	"testing"

	"verif.local/sim/harness"
)

// TestSim is the worker entry point: VERIF_ENGINE selects the engine, see
// harness.WorkerMain for the other variables.
func TestSim(t *testing.T) { harness.WorkerMain(t) }
