package engines

import (
	"bufio"
	"bytes"
	"context"
	"errors"
	"fmt"
	"net/url"
	"sort"
	"strconv"
	"strings"
	"sync"
	"time"

	"github.com/gofiber/fiber/v3"
	"github.com/gofiber/fiber/v3/client"
	"github.com/valyala/fasthttp"

	"verif.local/sim/harness"
	"verif.local/sim/simrt"
)

// C18 — HTTP client (DESIGN.md 3.10): (a) completion / timeout hand-off over
// pooled responses and error channels under concurrent use of one client,
// (b) cookie jar histories against a reference jar, (c) request fidelity.

func init() {
	harness.Register(&harness.Engine{
		Name: "client", Property: "C18", Level: "exploration",
		Main:       clientMain,
		MaxSimTime: 30 * time.Minute,
		DrainTime:  11 * time.Second,
		Rule: "per run one of three scenarios: (hand-off) 2-5 concurrent request tasks on one shared client over a simulated transport whose delay is drawn from {0, <timeout, =timeout, >timeout} with transport errors, request/client timeouts, harness-cancelled contexts, retries and redirects, every request carrying a unique token that the server echoes; " +
			"(jar) histories of Set / SetByHost / SetKeyValue / responses that set, replace, expire cookies / Get over 2-3 hosts and nested paths with clock advance and Release+reuse, compared with a reference jar after every operation; " +
			"(fidelity) headers, query parameters, form fields, cookies, path parameters, body, user agent, referer and timeout set at client and request level, compared with what the server parsed and re-built under another map order. " +
			"distinct = hash of (scenario, configuration, per operation outcome class); non-trivial = hand-off: a timeout and a response fell on the same instant or a request timed out while others were in flight; jar: a cookie expired or was replaced; fidelity: a value needed escaping",
		Assumptions: []string{
			"the transport is a stub (fasthttp RoundTripper): the request is serialised by fasthttp, handled by a real fiber app in the same bubble and the serialised response parsed back; connection handling of fasthttp is not exercised",
			"fasthttp's own pools stay real sync.Pools (one P, GC only between runs, so they are deterministic and LIFO); fiber's pools are simulated",
			"a select with several cases ready at the same instant is decided by the Go runtime, not by the tape; the workload avoids creating that situation (contexts are cancelled by timers only)",
			"cookie paths and request paths are generated so that 'prefix' and RFC 6265 path-match agree",
		},
		Components: map[string]string{
			"client package (core, hooks, request, response, cookiejar), addon/retry": "real (instrumented)",
			"fasthttp.Client/HostClient dispatch, request/response codecs":            "real (not instrumented)",
			"network": "stub RoundTripper with seeded delay / error",
			"server":  "real fiber app reached through harness.Conn",
			"sync.Mutex / sync.Pool / goroutines / atomics / channel ops": "simulated by simrt",
		},
	})
}

type simTransport struct {
	s     *simrt.Sim
	app   *fiber.App
	plans map[string]*tplan // by token
}

type tplan struct {
	delays []time.Duration // per attempt
	fails  []bool
	n      int
}

var errTransport = errors.New("injected transport error")

func (t *simTransport) RoundTrip(_ *fasthttp.HostClient, req *fasthttp.Request, resp *fasthttp.Response) (bool, error) {
	var buf bytes.Buffer
	bw := bufio.NewWriter(&buf)
	if err := req.Write(bw); err != nil {
		return false, err
	}
	_ = bw.Flush()
	tok := string(req.Header.Peek("X-Token"))
	var d time.Duration
	fail := false
	if p := t.plans[tok]; p != nil {
		i := p.n
		if i >= len(p.delays) {
			i = len(p.delays) - 1
		}
		d, fail = p.delays[i], p.fails[i]
		p.n++
	}
	if t.s.Tracing() {
		t.s.Logf("transport %s attempt delay=%v fail=%v", tok, d, fail)
	}
	simrt.Yield(600)
	simrt.Sleep(d)
	if fail {
		t.s.Count("fault_transport_error")
		return false, errTransport
	}
	conn := harness.NewConn(t.app, "10.1.0.1")
	r := conn.Do(buf.Bytes())
	simrt.Yield(601)
	if err := resp.Read(bufio.NewReader(bytes.NewReader(r.Raw))); err != nil {
		return false, err
	}
	return false, nil
}

func clientMain(s *simrt.Sim, info *harness.RunInfo) {
	switch s.Draw(3) {
	case 0:
		clientHandoff(s, info)
	case 1:
		clientJar(s, info)
	default:
		clientFidelity(s, info)
	}
}

// ---- (a) hand-off ---------------------------------------------------------------------

type hoOp struct {
	id       int
	token    string
	timeout  time.Duration // request level (0 = none)
	cancelAt time.Duration // harness cancels the context after this long (0 = never)
	redirect bool
	plan     *tplan
	start    time.Time
	err      error
	status   int
	body     string
	echo     string
	done     bool
	elapsed  time.Duration
	cliTO    time.Duration
	retries  int
	mustFail bool
	mayFail  bool
	mustOK   bool
}

func clientHandoff(s *simrt.Sim, info *harness.RunInfo) {
	faults := s.Chance(400)
	info.Faults = faults
	ntasks := s.Range(2, harness.Scale(5, 8))
	cliTimeout := simrt.PickS(s, 0, 2*time.Second, time.Second)
	useRetry := s.Chance(250)
	preempt := simrt.PickS(s, 150, 400, 50, 0)
	cfgLine := fmt.Sprintf("handoff faults=%v tasks=%d clientTimeout=%v retry=%v preempt=%d", faults, ntasks, cliTimeout, useRetry, preempt)
	s.Logf("cfg %s", cfgLine)

	app := fiber.New()
	app.Get("/echo", func(c fiber.Ctx) error {
		tok := strings.Clone(c.Get("X-Token"))
		c.Set("X-Echo", tok)
		return c.SendString("echo:" + tok)
	})
	app.Get("/redir", func(c fiber.Ctx) error {
		return c.Redirect().Status(302).To("/echo")
	})
	app.Handler()
	tr := &simTransport{s: s, app: app, plans: map[string]*tplan{}}
	cl := client.NewWithClient(&fasthttp.Client{Transport: tr})
	if cliTimeout > 0 {
		cl.SetTimeout(cliTimeout)
	}
	if useRetry {
		cl.SetRetryConfig(&client.RetryConfig{InitialInterval: 100 * time.Millisecond, MaxBackoffTime: time.Second, Multiplier: 2, MaxRetryCount: 3})
	}

	var all []*hoOp
	plans := make([][]*hoOp, ntasks)
	for ti := range plans {
		n := s.Range(1, 5)
		for j := 0; j < n; j++ {
			op := &hoOp{id: len(all), cliTO: cliTimeout}
			op.token = fmt.Sprintf("tok-%d-%d", ti, op.id)
			op.timeout = simrt.PickS(s, time.Second, 0, 500*time.Millisecond, 2*time.Second)
			eff := op.timeout
			if eff == 0 {
				eff = cliTimeout
			}
			base := eff
			if base == 0 {
				base = time.Second
			}
			delay := simrt.PickS(s, 0, base/2, base, base+500*time.Millisecond, base, 10*time.Millisecond)
			op.plan = &tplan{delays: []time.Duration{delay}, fails: []bool{false}}
			if faults && s.Chance(250) {
				op.plan.fails[0] = true
				if useRetry {
					// later attempts may succeed
					op.plan.delays = append(op.plan.delays, simrt.PickS(s, 0, base/4))
					op.plan.fails = append(op.plan.fails, s.Chance(300))
				}
			}
			if s.Chance(150) {
				op.redirect = true
				op.plan.delays = append(op.plan.delays, op.plan.delays[len(op.plan.delays)-1])
				op.plan.fails = append(op.plan.fails, false)
			}
			if s.Chance(120) {
				op.cancelAt = simrt.PickS(s, base/2, base, 10*time.Millisecond)
			}
			tr.plans[op.token] = op.plan
			all = append(all, op)
			plans[ti] = append(plans[ti], op)
		}
	}
	s.SetPreempt(preempt)
	var wg sync.WaitGroup
	for ti := range plans {
		wg.Add(1)
		p := plans[ti]
		simrt.GoNamed("req-task"+strconv.Itoa(ti), func() {
			defer wg.Done()
			for _, op := range p {
				simrt.Sleep(simrt.PickS(s, 0, 0, 250*time.Millisecond, 500*time.Millisecond, time.Second))
				req := cl.R()
				req.SetHeader("X-Token", op.token)
				if op.timeout > 0 {
					req.SetTimeout(op.timeout)
				}
				if op.redirect {
					req.SetMaxRedirects(3)
				}
				var cancel context.CancelFunc
				if op.cancelAt > 0 {
					var ctx context.Context
					ctx, cancel = context.WithTimeout(context.Background(), op.cancelAt)
					req.SetContext(ctx)
				}
				op.start = time.Now()
				s.Logf("op%d %s start timeout=%v cancelAt=%v redirect=%v delays=%v fails=%v", op.id, op.token, op.timeout, op.cancelAt, op.redirect, op.plan.delays, op.plan.fails)
				path := "/echo"
				if op.redirect {
					path = "/redir"
				}
				resp, err := req.Get("http://a.example" + path)
				op.elapsed = time.Since(op.start)
				op.err = err
				if err == nil {
					op.status = resp.StatusCode()
					op.body = string(resp.Body())
					op.echo = strings.Clone(resp.Header("X-Echo"))
					resp.Close() // also releases the request
				} else {
					client.ReleaseRequest(req)
				}
				if cancel != nil {
					cancel()
				}
				op.done = true
				s.Logf("op%d %s done after %v err=%v status=%d body=%q echo=%q", op.id, op.token, op.elapsed, err, op.status, op.body, op.echo)
			}
		})
	}
	join(&wg)
	s.SetPreempt(0)
	if s.Failed() {
		return
	}
	h := newHasher().str(cfgLine)
	sameInstant, timedOut := 0, 0
	for _, op := range all {
		if !op.done {
			s.Fail("C18.progress", "op%d never returned", op.id)
			continue
		}
		// effective deadline of this request
		eff := op.timeout
		if eff == 0 {
			eff = op.cliTO
		}
		if op.cancelAt > 0 && (eff == 0 || op.cancelAt < eff) {
			eff = op.cancelAt
		}
		class := "ok"
		if op.err != nil {
			class = "err"
			timedOut++
			// an error is legitimate iff a transport attempt failed, or the deadline could have struck
			transportFailed := false
			for i := 0; i < op.plan.n && i < len(op.plan.fails); i++ {
				if op.plan.fails[i] {
					transportFailed = true
				}
			}
			deadlineHit := eff > 0 && op.elapsed >= eff
			if !transportFailed && !deadlineHit {
				s.Fail("C18.spurious-error", "op%d %s returned %v after %v although no transport attempt failed and its deadline (%v) had not passed", op.id, op.token, op.err, op.elapsed, eff)
			}
			if eff > 0 && op.elapsed == eff {
				sameInstant++
			}
		} else {
			if op.body != "echo:"+op.token || op.echo != op.token || op.status != 200 {
				s.Fail("C18.response-belongs-to-request", "op%d %s was handed status=%d body=%q X-Echo=%q: not the response to this request", op.id, op.token, op.status, op.body, op.echo)
			}
			if eff > 0 && op.elapsed > eff {
				s.Fail("C18.timeout-ignored", "op%d %s succeeded after %v, its deadline was %v", op.id, op.token, op.elapsed, eff)
			}
			if eff > 0 && op.elapsed == eff {
				sameInstant++
			}
		}
		h.str(class)
	}
	if sameInstant > 0 {
		s.Count("probe_timeout_and_response_same_instant")
	}
	if timedOut > 0 {
		s.Count("probe_runs_with_failed_request")
	}
	info.StateHash = h.h
	info.Nontrivial = sameInstant > 0 || timedOut > 0
	info.Sample = map[string]any{"config": cfgLine, "requests": len(all)}
}

// ---- (b) cookie jar -------------------------------------------------------------------

type jarEntry struct {
	name, path, value string
	expires           time.Time // zero = unlimited
}

func clientJar(s *simrt.Sim, info *harness.RunInfo) {
	hosts := []string{"a.example", "b.example", "a.example:8080"}[:s.Range(2, 3)]
	if s.Chance(300) {
		// IPv6 literals: two hosts that differ only after the last colon, one of them also with a port
		hosts = []string{"[fd00::1]", "[fd00::2]", "[fd00::1]:8080"}[:s.Range(2, 3)]
	}
	paths := []string{"/", "/a", "/a/b", "/c"}
	reqPaths := []string{"/", "/a", "/a/b", "/a/b/x", "/c", "/d"}
	names := []string{"n0", "n1", "n2"}
	nops := s.Range(3, harness.Scale(25, 50))
	cfgLine := fmt.Sprintf("jar hosts=%d ops=%d", len(hosts), nops)
	s.Logf("cfg %s", cfgLine)

	// the server sets whatever the request asks for through X-Set headers
	app := fiber.New()
	app.Get("/*", func(c fiber.Ctx) error {
		for _, v := range c.GetReqHeaders()["X-Set"] {
			// name|value|path|maxage
			f := strings.Split(v, "|")
			ck := &fiber.Cookie{Name: strings.Clone(f[0]), Value: strings.Clone(f[1]), Path: strings.Clone(f[2])}
			if ma := atoi(f[3]); ma > 0 {
				ck.MaxAge = ma
				ck.Expires = time.Now().Add(time.Duration(ma) * time.Second)
			} else if ma < 0 {
				ck.Expires = time.Now().Add(-time.Hour)
				ck.MaxAge = -1
			}
			c.Cookie(ck)
		}
		return c.SendString(strings.Clone(c.Get("Cookie")))
	})
	app.Handler()
	tr := &simTransport{s: s, app: app, plans: map[string]*tplan{}}
	cl := client.NewWithClient(&fasthttp.Client{Transport: tr})
	jar := client.AcquireCookieJar()
	cl.SetCookieJar(jar)

	model := map[string][]*jarEntry{}
	hostKey := func(h string) string {
		if strings.HasPrefix(h, "[") {
			return h[:strings.IndexByte(h, ']')+1] // cookies are not scoped by port
		}
		if i := strings.IndexByte(h, ':'); i >= 0 {
			return h[:i]
		}
		return h
	}
	store := func(host string, e *jarEntry, now time.Time) {
		hk := hostKey(host)
		lst := model[hk]
		idx := -1
		for i, x := range lst {
			if x.name == e.name && samePath(x.path, e.path) {
				idx = i
			}
		}
		expired := !e.expires.IsZero() && !e.expires.After(now)
		switch {
		case expired && idx >= 0:
			model[hk] = append(lst[:idx], lst[idx+1:]...)
		case expired:
		case idx >= 0:
			lst[idx] = e
		default:
			model[hk] = append(lst, e)
		}
	}
	// inverted = the direction the pinned implementation (and its unit test) uses:
	// the cookie's path must start with the request path. Only used to give that
	// known deviation its own oracle id; the statement's rule is the reference.
	keepBoundary := false // an entry expiring exactly now may or may not be returned
	expectRule := func(host, reqPath string, now time.Time, inverted bool) []string {
		var out []string
		for _, e := range model[hostKey(host)] {
			if !e.expires.IsZero() && !e.expires.After(now) && !(keepBoundary && e.expires.Equal(now)) {
				continue
			}
			if !inverted && len(e.path) > 1 && !strings.HasPrefix(reqPath, e.path) {
				continue
			}
			if inverted && len(reqPath) > 1 && len(e.path) > 1 && !strings.HasPrefix(e.path, reqPath) {
				continue
			}
			out = append(out, e.name+"="+e.value+";"+e.path)
		}
		sort.Strings(out)
		return out
	}
	expect := func(host, reqPath string, now time.Time) []string { return expectRule(host, reqPath, now, false) }
	pathDirectionReported := false
	got := func(host, reqPath string) []string {
		u := fasthttp.AcquireURI()
		defer fasthttp.ReleaseURI(u)
		_ = u.Parse([]byte(host), []byte("http://"+host+reqPath))
		var out []string
		for _, c := range jar.Get(u) {
			out = append(out, string(c.Key())+"="+string(c.Value())+";"+string(c.Path()))
		}
		sort.Strings(out)
		return out
	}
	classify := func(host, reqPath string, exp, have []string, now time.Time) (string, string) {
		expSet := map[string]int{}
		for _, e := range exp {
			expSet[e]++
		}
		haveSet := map[string]int{}
		for _, e := range have {
			haveSet[e]++
		}
		for _, e := range have {
			n := haveSet[e]
			if n > 1 && expSet[e] == 1 {
				return "C18.jar.duplicate", fmt.Sprintf("cookie %s returned %d times", e, n)
			}
			if expSet[e] == 0 {
				// why is it wrong?
				nm := strings.SplitN(e, "=", 2)[0]
				pth := e[strings.LastIndexByte(e, ';')+1:]
				for _, m := range model[hostKey(host)] {
					if m.name+"="+m.value+";"+m.path == e {
						if !m.expires.IsZero() && !m.expires.After(now) {
							return "C18.jar.expired", fmt.Sprintf("cookie %s expired at %s (now %s) but is still returned", e, m.expires.Format("05.000"), now.Format("05.000"))
						}
						return "C18.jar.path", fmt.Sprintf("cookie %s (path %q) returned for request path %q, of which its path is not a prefix", e, m.path, reqPath)
					}
				}
				hks := make([]string, 0, len(model))
				for hk := range model {
					hks = append(hks, hk)
				}
				sort.Strings(hks)
				for _, hk := range hks {
					lst := model[hk]
					if hk == hostKey(host) {
						continue
					}
					for _, m := range lst {
						if m.name+"="+m.value+";"+m.path == e {
							return "C18.jar.otherhost", fmt.Sprintf("cookie %s stored for host %s returned for host %s", e, hk, host)
						}
					}
				}
				_ = nm
				_ = pth
				return "C18.jar.stale-value", fmt.Sprintf("cookie %s is not in the jar (replaced, removed by the server, or never stored)", e)
			}
		}
		for _, e := range exp {
			if haveSet[e] == 0 {
				return "C18.jar.missing", fmt.Sprintf("cookie %s (stored, unexpired, path matches %q) is not returned", e, reqPath)
			}
		}
		return "", ""
	}
	checkAll := func(after string) bool {
		now := time.Now()
		for _, hst := range hosts {
			for _, rp := range reqPaths {
				have := strings.Join(got(hst, rp), ",")
				exp := expect(hst, rp, now)
				inv := expectRule(hst, rp, now, true)
				keepBoundary = true
				expB := expect(hst, rp, now)
				invB := expectRule(hst, rp, now, true)
				keepBoundary = false
				if have == strings.Join(exp, ",") || have == strings.Join(expB, ",") {
					continue
				}
				if have == strings.Join(inv, ",") || have == strings.Join(invB, ",") {
					if !pathDirectionReported {
						pathDirectionReported = true
						s.Fail("C18.jar.path-direction", "after %s: Get(http://%s%s) = [%s], reference jar says %v: the jar returns the cookies whose path starts with the request path instead of those whose path is a prefix of it", after, hst, rp, have, exp)
					}
					continue
				}
				id, why := classify(hst, rp, exp, got(hst, rp), now)
				if id == "" {
					id, why = "C18.jar.mismatch", "multisets differ"
				}
				s.Fail(id, "after %s: Get(http://%s%s) = [%s], reference jar says %v: %s", after, hst, rp, have, exp, why)
				return false
			}
		}
		return true
	}

	h := newHasher().str(cfgLine)
	expiredSeen, replaced := false, false
	for i := 0; i < nops; i++ {
		now := time.Now()
		kind := [...]int{0, 1, 2, 3, 4, 5, 6, 6, 7, 3, 6}[s.Draw(11)]
		var desc string
		switch kind {
		case 0, 1: // SetByHost / Set with explicit cookie
			hst := hosts[s.Draw(len(hosts))]
			e := &jarEntry{name: names[s.Draw(len(names))], path: paths[s.Draw(len(paths))], value: "v" + strconv.Itoa(i)}
			ck := fasthttp.AcquireCookie()
			ck.SetKey(e.name)
			ck.SetValue(e.value)
			ck.SetPath(e.path)
			if s.Chance(400) {
				d := time.Duration(s.Range(1, 6)) * time.Second
				e.expires = now.Add(d)
				ck.SetExpire(e.expires)
			}
			if kind == 0 {
				jar.SetByHost([]byte(hst), ck)
				desc = fmt.Sprintf("SetByHost(%s, %s=%s path=%s expires=%v)", hst, e.name, e.value, e.path, !e.expires.IsZero())
			} else {
				u := fasthttp.AcquireURI()
				_ = u.Parse([]byte(hst), []byte("http://"+hst+"/whatever"))
				jar.Set(u, ck)
				fasthttp.ReleaseURI(u)
				desc = fmt.Sprintf("Set(http://%s/whatever, %s=%s path=%s expires=%v)", hst, e.name, e.value, e.path, !e.expires.IsZero())
			}
			fasthttp.ReleaseCookie(ck)
			for _, x := range model[hostKey(hst)] {
				if x.name == e.name && samePath(x.path, e.path) {
					replaced = true
				}
			}
			store(hst, e, now)
		case 2: // SetKeyValue
			hst := hosts[s.Draw(len(hosts))]
			e := &jarEntry{name: names[s.Draw(len(names))], value: "kv" + strconv.Itoa(i)}
			jar.SetKeyValue(hst, e.name, e.value)
			desc = fmt.Sprintf("SetKeyValue(%s, %s, %s)", hst, e.name, e.value)
			store(hst, e, now)
		case 3, 4, 5: // a request whose response sets / replaces / expires cookies
			hst := hosts[s.Draw(len(hosts))]
			rp := reqPaths[s.Draw(len(reqPaths))]
			req := cl.R()
			n := s.Range(0, 2)
			var sets []string
			var entries []*jarEntry
			for j := 0; j < n; j++ {
				e := &jarEntry{name: names[s.Draw(len(names))], path: paths[s.Draw(len(paths))], value: fmt.Sprintf("r%d.%d", i, j)}
				ma := simrt.PickS(s, 0, 3, -1, 5, 0)
				if ma > 0 {
					e.expires = now.Add(time.Duration(ma) * time.Second)
				} else if ma < 0 {
					e.expires = now.Add(-time.Hour)
				}
				dup := false
				for _, x := range entries {
					if x.name == e.name { // one Set-Cookie per name: fasthttp's response header keeps the last one
						dup = true
					}
				}
				if dup {
					continue
				}
				entries = append(entries, e)
				sets = append(sets, fmt.Sprintf("%s|%s|%s|%d", e.name, e.value, e.path, ma))
				req.AddHeader("X-Set", sets[len(sets)-1])
			}
			keepBoundary = false
			cands := [][]string{expect(hst, rp, now), nil, expectRule(hst, rp, now, true), nil}
			keepBoundary = true
			cands[1], cands[3] = expect(hst, rp, now), expectRule(hst, rp, now, true)
			keepBoundary = false
			resp, err := req.Get("http://" + hst + rp)
			desc = fmt.Sprintf("GET http://%s%s with Set-Cookie %v", hst, rp, sets)
			if err != nil {
				client.ReleaseRequest(req)
				s.Fail("C18.jar.request", "%s failed: %v", desc, err)
				break
			}
			// what went over the wire must be what the jar holds for that URL
			wire := strings.Split(string(resp.Body()), "; ")
			if len(wire) == 1 && wire[0] == "" {
				wire = nil
			}
			sort.Strings(wire)
			match := -1
			ambiguous := false
			for ci, cand := range cands {
				var nv []string
				seen := map[string]bool{}
				for _, w := range cand {
					x := w[:strings.LastIndexByte(w, ';')]
					nm := strings.SplitN(x, "=", 2)[0]
					if seen[nm] {
						ambiguous = true // two cookies of one name (different paths): which is sent is not specified by the statement
					}
					seen[nm] = true
					nv = append(nv, x)
				}
				sort.Strings(nv)
				if match < 0 && strings.Join(nv, ",") == strings.Join(wire, ",") {
					match = ci
				}
			}
			switch {
			case ambiguous || match == 0 || match == 1:
			case match >= 2:
				if !pathDirectionReported {
					pathDirectionReported = true
					s.Fail("C18.jar.path-direction", "%s: Cookie header on the wire %v, reference jar says %v: the jar returns the cookies whose path starts with the request path instead of those whose path is a prefix of it", desc, wire, cands[0])
				}
			default:
				s.Fail("C18.jar.wire", "%s: Cookie header on the wire %v, jar should hold %v for that URL", desc, wire, cands[0])
			}
			resp.Close() // also releases the request
			for _, e := range entries {
				for _, x := range model[hostKey(hst)] {
					if x.name == e.name && samePath(x.path, e.path) {
						replaced = true
					}
				}
				store(hst, e, now)
			}
		case 6: // time passes
			d := time.Duration(s.Range(1, 4)) * time.Second
			simrt.Sleep(d)
			desc = fmt.Sprintf("sleep %v", d)
			for _, lst := range model {
				for _, e := range lst {
					if !e.expires.IsZero() && !e.expires.After(time.Now()) {
						expiredSeen = true
					}
				}
			}
		case 7:
			if s.Chance(300) {
				client.ReleaseCookieJar(jar)
				jar = client.AcquireCookieJar()
				cl.SetCookieJar(jar)
				model = map[string][]*jarEntry{}
				desc = "ReleaseCookieJar + AcquireCookieJar"
			} else {
				// unrelated traffic on the cookie pool
				c1 := fasthttp.AcquireCookie()
				c1.SetKey("unrelated")
				c1.SetValue("zzz")
				fasthttp.ReleaseCookie(c1)
				desc = "unrelated cookie pool traffic"
			}
		}
		s.Logf("step %d: %s", i, desc)
		h.int(kind)
		if !checkAll(desc) {
			break
		}
		if n := s.NumFailures(); n > 1 || (n == 1 && !pathDirectionReported) {
			break // something other than the known path-direction deviation failed
		}
	}
	if expiredSeen {
		s.Count("probe_cookie_expired_in_jar")
	}
	if replaced {
		s.Count("probe_cookie_replaced")
	}
	info.StateHash = h.h
	info.Nontrivial = expiredSeen || replaced
	info.Sample = map[string]any{"config": cfgLine}
}

// ---- (c) fidelity ---------------------------------------------------------------------

func clientFidelity(s *simrt.Sim, info *harness.RunInfo) {
	type seen struct {
		method, path, query, ua, referer, cookie, body, ctype string
		headers                                               map[string][]string
	}
	var last seen
	app := fiber.New()
	app.All("/*", func(c fiber.Ctx) error {
		last = seen{method: c.Method(), path: strings.Clone(c.Path()), query: string(c.Request().URI().QueryString()),
			ua: strings.Clone(c.Get("User-Agent")), referer: strings.Clone(c.Get("Referer")), cookie: strings.Clone(c.Get("Cookie")),
			body: string(c.Body()), ctype: strings.Clone(c.Get("Content-Type")), headers: map[string][]string{}}
		for k, v := range c.GetReqHeaders() {
			for _, x := range v {
				last.headers[strings.Clone(k)] = append(last.headers[strings.Clone(k)], strings.Clone(x))
			}
		}
		return c.SendString("ok")
	})
	app.Handler()
	tr := &simTransport{s: s, app: app, plans: map[string]*tplan{}}

	alphabet := []string{"plain", "with space", "a&b=c", "ü", "", "x/y?z", "q\"uote", "per%cent", "semi;colon", "plus+"}
	val := func() string { return alphabet[s.Draw(len(alphabet))] }
	needEsc := false
	type kv struct{ k, v string }
	cliHdr := []kv{{"X-C1", val()}, {"X-Both", val()}}
	reqHdr := []kv{{"X-R1", val()}, {"X-Both", val()}}
	cliQ := []kv{{"cq", val()}, {"both", val()}}
	reqQ := []kv{{"rq", val()}, {"both", val()}}
	cliCk := []kv{{"cc", "cv" + strconv.Itoa(s.Draw(5))}, {"ck", "client"}}
	reqCk := []kv{{"rc", "rv" + strconv.Itoa(s.Draw(5))}, {"ck", "request"}}
	cliPP := []kv{{"id", "cid"}, {"name", "cname"}, {"idx", "cidx"}}
	reqPP := []kv{{"id", "rid" + strconv.Itoa(s.Draw(9))}}
	cliUA, reqUA := "client-ua", ""
	if s.Chance(500) {
		reqUA = "request-ua"
	}
	cliRef, reqRef := "http://client.ref/", ""
	if s.Chance(500) {
		reqRef = "http://request.ref/"
	}
	useForm := s.Chance(400)
	form := []kv{{"f1", val()}, {"f2", val()}}
	rawBody := ""
	if !useForm && s.Chance(500) {
		rawBody = "raw-" + val()
	}
	for _, l := range [][]kv{cliHdr, reqHdr, cliQ, reqQ, form} {
		for _, e := range l {
			if strings.ContainsAny(e.v, " &=/?\"%;+ü") {
				needEsc = true
			}
		}
	}
	cfgLine := fmt.Sprintf("fidelity form=%v body=%q reqUA=%q reqRef=%q", useForm, rawBody, reqUA, reqRef)
	s.Logf("cfg %s cliHdr=%v reqHdr=%v cliQ=%v reqQ=%v reqPP=%v form=%v", cfgLine, cliHdr, reqHdr, cliQ, reqQ, reqPP, form)

	build := func() (seen, error) {
		cl := client.NewWithClient(&fasthttp.Client{Transport: tr})
		for _, e := range cliHdr {
			cl.AddHeader(e.k, e.v)
		}
		for _, e := range cliQ {
			cl.AddParam(e.k, e.v)
		}
		for _, e := range cliCk {
			cl.SetCookie(e.k, e.v)
		}
		pp := map[string]string{}
		for _, e := range cliPP {
			pp[e.k] = e.v
		}
		cl.SetPathParams(pp)
		cl.SetUserAgent(cliUA)
		cl.SetReferer(cliRef)
		req := cl.R()
		for _, e := range reqHdr {
			req.AddHeader(e.k, e.v)
		}
		for _, e := range reqQ {
			req.AddParam(e.k, e.v)
		}
		for _, e := range reqCk {
			req.SetCookie(e.k, e.v)
		}
		for _, e := range reqPP {
			req.SetPathParam(e.k, e.v)
		}
		if reqUA != "" {
			req.SetUserAgent(reqUA)
		}
		if reqRef != "" {
			req.SetReferer(reqRef)
		}
		if useForm {
			for _, e := range form {
				req.AddFormData(e.k, e.v)
			}
		} else if rawBody != "" {
			req.SetRawBody([]byte(rawBody))
		}
		resp, err := req.Post("http://a.example/u/:id/n/:name/i/:idx")
		if err != nil {
			client.ReleaseRequest(req)
			return seen{}, err
		}
		resp.Close() // also releases the request
		return last, nil
	}
	a, err := build()
	if err != nil {
		s.Fail("C18.fidelity.request", "request failed: %v", err)
		return
	}
	b, err := build() // same configuration, other map order (tape)
	if err != nil {
		s.Fail("C18.fidelity.request", "request failed: %v", err)
		return
	}
	render := func(x seen) string {
		ks := make([]string, 0, len(x.headers))
		for k := range x.headers {
			ks = append(ks, k)
		}
		sort.Strings(ks)
		var sb strings.Builder
		for _, k := range ks {
			fmt.Fprintf(&sb, "%s=%q;", k, x.headers[k])
		}
		return fmt.Sprintf("%s %s ?%s ua=%q ref=%q cookie=%q ctype=%q body=%q hdr{%s}", x.method, x.path, x.query, x.ua, x.referer, x.cookie, x.ctype, x.body, sb.String())
	}
	if render(a) != render(b) {
		s.Fail("C18.fidelity.deterministic", "the same configuration produced two different requests:\n  %s\n  %s", render(a), render(b))
	}
	// path parameters: request level wins over client level
	wantPath := "/u/" + reqPP[0].v + "/n/cname/i/cidx"
	if a.path != wantPath {
		s.Fail("C18.fidelity.pathparam", "path %q, expected %q (request-level id=%s over client-level id=cid; name=cname; idx=cidx)", a.path, wantPath, reqPP[0].v)
	}
	wantUA := cliUA
	if reqUA != "" {
		wantUA = reqUA
	}
	if a.ua != wantUA {
		s.Fail("C18.fidelity.useragent", "User-Agent %q, expected %q", a.ua, wantUA)
	}
	wantRef := cliRef
	if reqRef != "" {
		wantRef = reqRef
	}
	if a.referer != wantRef {
		s.Fail("C18.fidelity.referer", "Referer %q, expected %q", a.referer, wantRef)
	}
	// headers: request-level ones are sent in addition to the client-level ones
	for _, e := range append(append([]kv{}, cliHdr...), reqHdr...) {
		found := false
		for _, v := range a.headers[e.k] {
			if v == e.v {
				found = true
			}
		}
		if !found {
			s.Fail("C18.fidelity.header", "header %s: %q did not arrive (server saw %q)", e.k, e.v, a.headers[e.k])
		}
	}
	// query parameters, decoded by an independent parser
	q := parseQuery(a.query)
	for _, e := range append(append([]kv{}, cliQ...), reqQ...) {
		found := false
		for _, v := range q[e.k] {
			if v == e.v {
				found = true
			}
		}
		if !found {
			s.Fail("C18.fidelity.query", "query parameter %s=%q did not arrive (query string %q)", e.k, e.v, a.query)
		}
	}
	// cookies: request level wins for the same name
	ck := map[string]string{}
	for _, p := range strings.Split(a.cookie, "; ") {
		if i := strings.IndexByte(p, '='); i > 0 {
			ck[p[:i]] = p[i+1:]
		}
	}
	for name, want := range map[string]string{"cc": cliCk[0].v, "rc": reqCk[0].v, "ck": "request"} {
		if ck[name] != want {
			s.Fail("C18.fidelity.cookie", "cookie %s arrived as %q, expected %q (Cookie: %q)", name, ck[name], want, a.cookie)
		}
	}
	if useForm {
		f := parseQuery(a.body)
		for _, e := range form {
			if len(f[e.k]) != 1 || f[e.k][0] != e.v {
				s.Fail("C18.fidelity.form", "form field %s=%q arrived as %q (body %q)", e.k, e.v, f[e.k], a.body)
			}
		}
	} else if a.body != rawBody {
		s.Fail("C18.fidelity.body", "body %q arrived as %q", rawBody, a.body)
	}
	if needEsc {
		s.Count("probe_value_needed_escaping")
	}
	info.StateHash = newHasher().str(cfgLine).str(render(a)).h
	info.Nontrivial = needEsc
	info.Sample = map[string]any{"config": cfgLine, "request": render(a)}
}

func parseQuery(q string) map[string][]string {
	out := map[string][]string{}
	if q == "" {
		return out
	}
	for _, part := range strings.Split(q, "&") {
		k, v, _ := strings.Cut(part, "=")
		out[unesc(k)] = append(out[unesc(k)], unesc(v))
	}
	return out
}

func unesc(s string) string {
	v, err := url.QueryUnescape(s)
	if err != nil {
		return s
	}
	return v
}

// samePath: "" and "/" denote the same cookie path.
func samePath(a, b string) bool { return a == b || (len(a) <= 1 && len(b) <= 1) }
