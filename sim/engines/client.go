package engines

import (
	"bufio"
	"bytes"
	"context"
	"encoding/json"
	"encoding/xml"
	"errors"
	"fmt"
	"io"
	"net/http"
	"net/url"
	"os"
	"path/filepath"
	"reflect"
	"sort"
	"strconv"
	"strings"
	"sync"
	"time"

	"github.com/gofiber/fiber/v3"
	"github.com/gofiber/fiber/v3/client"
	"github.com/valyala/fasthttp"

	"verif.local/sim/harness"
	"verif.local/sim/simrt"
)

// C18 — HTTP client (DESIGN.md 3.10): (a) completion / timeout hand-off over
// pooled responses and error channels under concurrent use of one client,
// (b) cookie jar histories against a reference jar, (c) request fidelity.

func init() {
	harness.Register(&harness.Engine{
		Name: "client", Property: "C18", Level: "exploration",
		Main:       clientMain,
		MaxSimTime: 30 * time.Minute,
		DrainTime:  11 * time.Second,
		Rule: "per run one of three scenarios: (hand-off) 2-5 concurrent request tasks on one shared client over a simulated transport whose delay is drawn from {0, <timeout, =timeout, >timeout} with transport errors, request/client timeouts, harness-cancelled contexts, retries and redirects, every request carrying a unique token that the server echoes; " +
			"(jar) histories of Set / SetByHost / SetKeyValue / responses that set, replace, expire cookies / Get over 2-3 hosts and nested paths with clock advance and Release+reuse, compared with a reference jar after every operation; " +
			"(fidelity) a history of 1-4 requests on one client (in a third of the runs also on the replaced default client), each request acquired (cl.R, AcquireRequest+SetClient, AcquireRequest alone, cl.<Method>(url, Config), client.<Method>(url, Config)), released (Close, ReleaseRequest+ReleaseResponse, not at all) and sent (Get/Post/Put/Patch/Delete/Head/Options, Custom incl. PURGE, SetMethod+SetURL+Send) another way, " +
			"with headers, query parameters, form fields, cookies, path parameters set at client and request level through the single, map, multi-map, struct and Config setters (multi-valued keys, a value overridden by a later Set, nasty keys and values), user agent, referer, base URL, a query inside the URL, a body that is none / raw / JSON / XML / CBOR / url-encoded form / multipart with 1-3 files " +
			"(AddFile, AddFileWithReader, AddFiles with AcquireFile and its setters, fixed or default boundary, with or without form fields), request and client timeouts against a transport delay on either side of both; in the fault stratum user request / response hooks (AddRequestHook, AddResponseHook) or the transport fail requests chosen by the tape, 2-3 further requests follow, and some neighbouring requests are acquired and configured before either is sent (a Request handed out while another holder still uses it is reported); the real fiber server reports what it parsed (c.MultipartForm for uploads); the whole history is sent twice on fresh clients (other map order, pooled Request/File objects of the first pass) and the two views compared. " +
			"distinct = hash of (scenario, configuration, per operation outcome class); non-trivial = hand-off: a timeout and a response fell on the same instant or a request timed out while others were in flight; jar: a cookie expired or was replaced; fidelity: a value needed escaping, a file was uploaded or the history had more than one request",
		Assumptions: []string{
			"the transport is a stub (fasthttp RoundTripper): the request is serialised by fasthttp, handled by a real fiber app in the same bubble and the serialised response parsed back; connection handling of fasthttp is not exercised",
			"fasthttp's own pools stay real sync.Pools (one P, GC only between runs, so they are deterministic and LIFO); fiber's pools are simulated",
			"a select with several cases ready at the same instant is decided by the Go runtime, not by the tape; the workload avoids creating that situation (contexts are cancelled by timers only)",
			"cookie paths and request paths are generated so that 'prefix' and RFC 6265 path-match agree",
			"fidelity: values are limited to what the wire format can carry faithfully (no control characters or surrounding blanks in header values, no ';', ',', blanks or quotes in cookie values, no '/', '?', '#', '%' or dot segments in path parameter values, bodies only on methods other than GET/HEAD); the order of header lines of different names is not compared; for multipart the raw body is taken from the wire (fasthttp's server keeps only the parsed form), everything else is what the fiber handler sees",
			"fidelity: files named by path are small files written once per process to a temporary directory",
		},
		Components: map[string]string{
			"client package (core, hooks, request, response, cookiejar), addon/retry": "real (instrumented)",
			"fasthttp.Client/HostClient dispatch, request/response codecs":            "real (not instrumented)",
			"network": "stub RoundTripper with seeded delay / error",
			"server":  "real fiber app reached through harness.Conn",
			"sync.Mutex / sync.Pool / goroutines / atomics / channel ops": "simulated by simrt",
		},
	})
}

type simTransport struct {
	s     *simrt.Sim
	app   *fiber.App
	plans map[string]*tplan // by token
	wire  map[string][]byte // if not nil: the body of every request as written to the wire, by token
	// dialSplit: how much of a planned delay passes before the request is written (0 none, 1 half, 2 all)
	dialSplit int
	// owner: if set, the transport of one of several clients; tokens of its client's requests start with it
	owner string
}

type tplan struct {
	delays []time.Duration // per attempt
	fails  []bool
	n      int
}

var errTransport = errors.New("injected transport error")

func (t *simTransport) RoundTrip(_ *fasthttp.HostClient, req *fasthttp.Request, resp *fasthttp.Response) (bool, error) {
	tokenOf := func() string {
		tok := string(req.Header.Peek("X-Token"))
		if tok == "" {
			// the fidelity scenario names its requests by the first path segment
			tok, _, _ = strings.Cut(strings.TrimPrefix(string(req.URI().Path()), "/"), "/")
		}
		return tok
	}
	tok0 := tokenOf()
	if t.owner != "" && !strings.HasPrefix(tok0, t.owner) {
		t.s.Fail("C18.request-sent-through-another-client", "request %q arrived at the transport of client %q: an attempt of one client's request was sent with another client's settings", tok0, t.owner)
	}
	var d time.Duration
	fail := false
	if p := t.plans[tok0]; p != nil {
		i := p.n
		if i >= len(p.delays) {
			i = len(p.delays) - 1
		}
		d, fail = p.delays[i], p.fails[i]
		p.n++
	}
	// part of the delay passes before the request is put on the wire (the connection is being
	// established), the rest while the answer is awaited
	pre := d * time.Duration(t.dialSplit) / 2
	d -= pre
	if pre > 0 {
		simrt.Yield(602)
		simrt.Sleep(pre)
	}
	var buf bytes.Buffer
	bw := bufio.NewWriter(&buf)
	if err := req.Write(bw); err != nil {
		return false, err
	}
	_ = bw.Flush()
	tok := tokenOf()
	if tok != tok0 {
		t.s.Fail("C18.request-changed-in-flight", "the request handed to the transport as %q reads as %q by the time the connection is up (%v later): the request object was released and reused while its send was still pending, the server receives another request's data", tok0, tok, pre)
	}
	if t.wire != nil {
		t.wire[tok] = append([]byte(nil), req.Body()...)
	}
	if t.s.Tracing() {
		t.s.Logf("transport %s attempt dial=%v delay=%v fail=%v", tok, pre, d, fail)
	}
	simrt.Yield(600)
	simrt.Sleep(d)
	if fail {
		t.s.Count("fault_transport_error")
		return false, errTransport
	}
	conn := harness.NewConn(t.app, "10.1.0.1")
	r := conn.Do(buf.Bytes())
	simrt.Yield(601)
	if req.Header.IsHead() {
		resp.SkipBody = true // as fasthttp's own transport does
	}
	if err := resp.Read(bufio.NewReader(bytes.NewReader(r.Raw))); err != nil {
		return false, err
	}
	return false, nil
}

func clientMain(s *simrt.Sim, info *harness.RunInfo) {
	switch s.Draw(3) {
	case 0:
		clientHandoff(s, info)
	case 1:
		clientJar(s, info)
	default:
		clientFidelity(s, info)
	}
}

// ---- (a) hand-off ---------------------------------------------------------------------

type hoOp struct {
	id         int
	token      string
	timeout    time.Duration // request level (0 = none)
	cancelAt   time.Duration // harness cancels the context after this long (0 = never)
	redirect   bool
	plan       *tplan
	start      time.Time
	err        error
	status     int
	body       string
	echo       string
	done       bool
	elapsed    time.Duration
	cliTO      time.Duration
	retries    int
	mustFail   bool
	mayFail    bool
	mustOK     bool
	ticket     string
	hookPanics bool
	second     bool // sent through the second client
}

func clientHandoff(s *simrt.Sim, info *harness.RunInfo) {
	faults := s.Chance(400)
	info.Faults = faults
	ntasks := s.Range(2, harness.Scale(5, 8))
	cliTimeout := simrt.PickS(s, 0, 2*time.Second, time.Second)
	useRetry := s.Chance(250)
	preempt := simrt.PickS(s, 150, 400, 50, 0)
	dialSplit := simrt.PickS(s, 0, 1, 2, 0) // how much of a transport delay passes before the request is written: none, half, all
	// a user request hook that configures a client-level value for the request at hand (hooks are given the client
	// for that); the builtin hooks that follow it merge the client's headers into that request
	ticketHook := s.Chance(250)
	// fault: the hook panics for some requests and the caller recovers; the client must stay usable
	hookPanics := faults && ticketHook && s.Chance(400)
	cfgLine := fmt.Sprintf("handoff faults=%v tasks=%d clientTimeout=%v retry=%v preempt=%d dialSplit=%d ticketHook=%v hookPanics=%v", faults, ntasks, cliTimeout, useRetry, preempt, dialSplit, ticketHook, hookPanics)
	s.Logf("cfg %s", cfgLine)

	app := fiber.New()
	app.Get("/echo", func(c fiber.Ctx) error {
		tok := strings.Clone(c.Get("X-Token"))
		c.Set("X-Echo", tok)
		c.Set("X-Ticket-Echo", strings.Clone(c.Get("X-Ticket")))
		return c.SendString("echo:" + tok)
	})
	app.Get("/redir", func(c fiber.Ctx) error {
		return c.Redirect().Status(302).To("/echo")
	})
	app.Handler()
	tr := &simTransport{s: s, app: app, plans: map[string]*tplan{}, dialSplit: dialSplit}
	cl := client.NewWithClient(&fasthttp.Client{Transport: tr})
	if cliTimeout > 0 {
		cl.SetTimeout(cliTimeout)
	}
	if useRetry {
		cl.SetRetryConfig(&client.RetryConfig{InitialInterval: 100 * time.Millisecond, MaxBackoffTime: time.Second, Multiplier: 2, MaxRetryCount: 3})
	}
	// a second client with a transport of its own (another upstream): the two share nothing but the package's pools
	var cl2 *client.Client
	if s.Chance(350) {
		tr.owner = "tok-"
		tr2 := &simTransport{s: s, app: app, plans: tr.plans, dialSplit: dialSplit, owner: "two-"}
		cl2 = client.NewWithClient(&fasthttp.Client{Transport: tr2})
		if useRetry {
			cl2.SetRetryConfig(&client.RetryConfig{InitialInterval: 100 * time.Millisecond, MaxBackoffTime: time.Second, Multiplier: 2, MaxRetryCount: 3})
		}
		s.Count("probe_two_clients_side_by_side")
	}
	if ticketHook {
		cl.AddRequestHook(func(c *client.Client, r *client.Request) error {
			tok := ""
			if v := r.Header("X-Token"); len(v) > 0 {
				tok = v[0]
			}
			c.SetHeader("X-Ticket", "ticket-for-"+tok)
			simrt.Yield(2101)
			if len(r.Header("X-Hook-Panics")) > 0 {
				s.Count("fault_request_hook_panic")
				panic("request hook: injected panic")
			}
			return nil
		})
	}

	var all []*hoOp
	plans := make([][]*hoOp, ntasks)
	for ti := range plans {
		n := s.Range(1, 5)
		for j := 0; j < n; j++ {
			op := &hoOp{id: len(all), cliTO: cliTimeout}
			op.token = fmt.Sprintf("tok-%d-%d", ti, op.id)
			if cl2 != nil && s.Chance(400) {
				op.second, op.cliTO = true, 0
				op.token = fmt.Sprintf("two-%d-%d", ti, op.id)
			}
			op.timeout = simrt.PickS(s, time.Second, 0, 500*time.Millisecond, 2*time.Second)
			eff := op.timeout
			if eff == 0 {
				eff = op.cliTO
			}
			base := eff
			if base == 0 {
				base = time.Second
			}
			delay := simrt.PickS(s, 0, base/2, base, base+500*time.Millisecond, base, 10*time.Millisecond)
			op.plan = &tplan{delays: []time.Duration{delay}, fails: []bool{false}}
			if faults && s.Chance(250) {
				op.plan.fails[0] = true
				if useRetry {
					// later attempts may succeed
					op.plan.delays = append(op.plan.delays, simrt.PickS(s, 0, base/4))
					op.plan.fails = append(op.plan.fails, s.Chance(300))
				}
			}
			if s.Chance(150) {
				op.redirect = true
				op.plan.delays = append(op.plan.delays, op.plan.delays[len(op.plan.delays)-1])
				op.plan.fails = append(op.plan.fails, false)
			}
			if s.Chance(120) {
				op.cancelAt = simrt.PickS(s, base/2, base, 10*time.Millisecond)
			}
			if hookPanics && !op.second && s.Chance(200) {
				op.hookPanics = true
			}
			tr.plans[op.token] = op.plan
			all = append(all, op)
			plans[ti] = append(plans[ti], op)
		}
	}
	s.SetPreempt(preempt)
	var wg sync.WaitGroup
	for ti := range plans {
		wg.Add(1)
		p := plans[ti]
		simrt.GoNamed("req-task"+strconv.Itoa(ti), func() {
			defer wg.Done()
			for _, op := range p {
				simrt.Sleep(simrt.PickS(s, 0, 0, 250*time.Millisecond, 500*time.Millisecond, time.Second))
				req := cl.R()
				if op.second {
					req = cl2.R()
				}
				req.SetHeader("X-Token", op.token)
				if op.timeout > 0 {
					req.SetTimeout(op.timeout)
				}
				if op.redirect {
					req.SetMaxRedirects(3)
				}
				var cancel context.CancelFunc
				if op.cancelAt > 0 {
					var ctx context.Context
					ctx, cancel = context.WithTimeout(context.Background(), op.cancelAt)
					req.SetContext(ctx)
				}
				op.start = time.Now()
				s.Logf("op%d %s start timeout=%v cancelAt=%v redirect=%v delays=%v fails=%v", op.id, op.token, op.timeout, op.cancelAt, op.redirect, op.plan.delays, op.plan.fails)
				path := "/echo"
				if op.redirect {
					path = "/redir"
				}
				if op.hookPanics {
					req.SetHeader("X-Hook-Panics", "1")
				}
				var resp *client.Response
				var err error
				func() {
					defer func() {
						if p := recover(); p != nil {
							if !op.hookPanics {
								panic(p)
							}
							err = fmt.Errorf("recovered: %v", p)
						}
					}()
					resp, err = req.Get("http://a.example" + path)
				}()
				op.elapsed = time.Since(op.start)
				op.err = err
				if err == nil {
					op.status = resp.StatusCode()
					op.body = string(resp.Body())
					op.echo = strings.Clone(resp.Header("X-Echo"))
					op.ticket = strings.Clone(resp.Header("X-Ticket-Echo"))
					resp.Close() // also releases the request
				} else {
					client.ReleaseRequest(req)
				}
				if cancel != nil {
					cancel()
				}
				op.done = true
				s.Logf("op%d %s done after %v err=%v status=%d body=%q echo=%q", op.id, op.token, op.elapsed, err, op.status, op.body, op.echo)
			}
		})
	}
	join(&wg)
	s.SetPreempt(0)
	if s.Failed() {
		return
	}
	h := newHasher().str(cfgLine)
	sameInstant, timedOut := 0, 0
	for _, op := range all {
		if !op.done {
			s.Fail("C18.progress", "op%d never returned", op.id)
			continue
		}
		// effective deadline of this request
		eff := op.timeout
		if eff == 0 {
			eff = op.cliTO
		}
		if op.cancelAt > 0 && (eff == 0 || op.cancelAt < eff) {
			eff = op.cancelAt
		}
		class := "ok"
		if op.err != nil {
			class = "err"
			timedOut++
			// an error is legitimate iff a transport attempt failed, or the deadline could have struck
			transportFailed := false
			for i := 0; i < op.plan.n && i < len(op.plan.fails); i++ {
				if op.plan.fails[i] {
					transportFailed = true
				}
			}
			deadlineHit := eff > 0 && op.elapsed >= eff
			if !transportFailed && !deadlineHit && !op.hookPanics {
				s.Fail("C18.spurious-error", "op%d %s returned %v after %v although no transport attempt failed and its deadline (%v) had not passed", op.id, op.token, op.err, op.elapsed, eff)
			}
			if eff > 0 && op.elapsed == eff {
				sameInstant++
			}
		} else {
			if op.body != "echo:"+op.token || op.echo != op.token || op.status != 200 {
				s.Fail("C18.response-belongs-to-request", "op%d %s was handed status=%d body=%q X-Echo=%q: not the response to this request", op.id, op.token, op.status, op.body, op.echo)
			}
			if ticketHook && !op.second && op.ticket != "ticket-for-"+op.token {
				s.Fail("C18.client-value-set-by-hook-reached-another-request", "op%d %s: its request hook set the client-level header X-Ticket to %q, the server received %q", op.id, op.token, "ticket-for-"+op.token, op.ticket)
			}
			if eff > 0 && op.elapsed > eff {
				s.Fail("C18.timeout-ignored", "op%d %s succeeded after %v, its deadline was %v", op.id, op.token, op.elapsed, eff)
			}
			if eff > 0 && op.elapsed == eff {
				sameInstant++
			}
		}
		h.str(class)
	}
	if sameInstant > 0 {
		s.Count("probe_timeout_and_response_same_instant")
	}
	if timedOut > 0 {
		s.Count("probe_runs_with_failed_request")
	}
	info.StateHash = h.h
	info.Nontrivial = sameInstant > 0 || timedOut > 0
	info.Sample = map[string]any{"config": cfgLine, "requests": len(all)}
}

// ---- (b) cookie jar -------------------------------------------------------------------

type jarEntry struct {
	name, path, value string
	expires           time.Time // zero = unlimited
}

func clientJar(s *simrt.Sim, info *harness.RunInfo) {
	hosts := []string{"a.example", "b.example", "a.example:8080"}[:s.Range(2, 3)]
	if s.Chance(300) {
		// IPv6 literals: two hosts that differ only after the last colon, one of them also with a port
		hosts = []string{"[fd00::1]", "[fd00::2]", "[fd00::1]:8080"}[:s.Range(2, 3)]
	}
	paths := []string{"/", "/a", "/a/b", "/c"}
	reqPaths := []string{"/", "/a", "/a/b", "/a/b/x", "/c", "/d"}
	names := []string{"n0", "n1", "n2"}
	nops := s.Range(3, harness.Scale(25, 50))
	cfgLine := fmt.Sprintf("jar hosts=%d ops=%d", len(hosts), nops)
	s.Logf("cfg %s", cfgLine)

	// the server sets whatever the request asks for through X-Set headers
	app := fiber.New()
	app.Get("/*", func(c fiber.Ctx) error {
		for _, v := range c.GetReqHeaders()["X-Raw-Set"] {
			// a Set-Cookie line as another server implementation may write it
			c.Response().Header.Add("Set-Cookie", strings.Clone(v))
		}
		for _, v := range c.GetReqHeaders()["X-Set"] {
			// name|value|path|maxage
			f := strings.Split(v, "|")
			ck := &fiber.Cookie{Name: strings.Clone(f[0]), Value: strings.Clone(f[1]), Path: strings.Clone(f[2])}
			if ma := atoi(f[3]); ma > 0 {
				ck.MaxAge = ma
				ck.Expires = time.Now().Add(time.Duration(ma) * time.Second)
			} else if ma == -2 || ma == -3 {
				// Max-Age and Expires disagree (RFC 6265 5.3: Max-Age wins). fasthttp's cookie writer never
				// emits both, so the line is written as another server implementation would
				line := fmt.Sprintf("%s=%s; Path=%s; Max-Age=0; Expires=%s", ck.Name, ck.Value, ck.Path, time.Now().Add(time.Hour).UTC().Format(http.TimeFormat))
				if ma == -3 {
					line = fmt.Sprintf("%s=%s; Path=%s; Max-Age=5; Expires=%s", ck.Name, ck.Value, ck.Path, time.Now().Add(-time.Hour).UTC().Format(http.TimeFormat))
				}
				c.Response().Header.Add("Set-Cookie", line)
				continue
			} else if ma < 0 {
				ck.Expires = time.Now().Add(-time.Hour)
				ck.MaxAge = -1
			}
			c.Cookie(ck)
		}
		return c.SendString(strings.Clone(c.Get("Cookie")))
	})
	app.Handler()
	tr := &simTransport{s: s, app: app, plans: map[string]*tplan{}}
	cl := client.NewWithClient(&fasthttp.Client{Transport: tr})
	jar := client.AcquireCookieJar()
	cl.SetCookieJar(jar)

	model := map[string][]*jarEntry{}
	hostKey := func(h string) string {
		if strings.HasPrefix(h, "[") {
			return h[:strings.IndexByte(h, ']')+1] // cookies are not scoped by port
		}
		if i := strings.IndexByte(h, ':'); i >= 0 {
			return h[:i]
		}
		return h
	}
	store := func(host string, e *jarEntry, now time.Time) {
		hk := hostKey(host)
		lst := model[hk]
		idx := -1
		for i, x := range lst {
			if x.name == e.name && samePath(x.path, e.path) {
				idx = i
			}
		}
		expired := !e.expires.IsZero() && !e.expires.After(now)
		switch {
		case expired && idx >= 0:
			model[hk] = append(lst[:idx], lst[idx+1:]...)
		case expired:
		case idx >= 0:
			lst[idx] = e
		default:
			model[hk] = append(lst, e)
		}
	}
	// inverted = the direction the pinned implementation (and its unit test) uses:
	// the cookie's path must start with the request path. Only used to give that
	// known deviation its own oracle id; the statement's rule is the reference.
	keepBoundary := false // an entry expiring exactly now may or may not be returned
	expectRule := func(host, reqPath string, now time.Time, inverted bool) []string {
		var out []string
		for _, e := range model[hostKey(host)] {
			if !e.expires.IsZero() && !e.expires.After(now) && !(keepBoundary && e.expires.Equal(now)) {
				continue
			}
			if !inverted && len(e.path) > 1 && !strings.HasPrefix(reqPath, e.path) {
				continue
			}
			if inverted && len(reqPath) > 1 && len(e.path) > 1 && !strings.HasPrefix(e.path, reqPath) {
				continue
			}
			out = append(out, e.name+"="+e.value+";"+e.path)
		}
		sort.Strings(out)
		return out
	}
	expect := func(host, reqPath string, now time.Time) []string { return expectRule(host, reqPath, now, false) }
	pathDirectionReported := false
	// "dom<i>" cookies: sent by one host with a Domain attribute that names another one. Whether the host
	// that sent it gets it back is left open (the statement speaks of the host a cookie is stored for, and a
	// client may well refuse such a line); no other host ever gets it
	domOrigin := map[string]string{}
	got := func(host, reqPath string) []string {
		u := fasthttp.AcquireURI()
		defer fasthttp.ReleaseURI(u)
		_ = u.Parse([]byte(host), []byte("http://"+host+reqPath))
		var out []string
		for _, c := range jar.Get(u) {
			if o, ok := domOrigin[string(c.Key())]; ok && o == hostKey(host) {
				continue
			}
			out = append(out, string(c.Key())+"="+string(c.Value())+";"+string(c.Path()))
		}
		sort.Strings(out)
		return out
	}
	classify := func(host, reqPath string, exp, have []string, now time.Time) (string, string) {
		expSet := map[string]int{}
		for _, e := range exp {
			expSet[e]++
		}
		haveSet := map[string]int{}
		for _, e := range have {
			haveSet[e]++
		}
		for _, e := range have {
			n := haveSet[e]
			if n > 1 && expSet[e] == 1 {
				return "C18.jar.duplicate", fmt.Sprintf("cookie %s returned %d times", e, n)
			}
			if expSet[e] == 0 {
				// why is it wrong?
				nm := strings.SplitN(e, "=", 2)[0]
				if o, ok := domOrigin[nm]; ok {
					return "C18.jar.otherhost", fmt.Sprintf("cookie %s, which host %s sent with a Domain attribute, is returned for host %s", e, o, host)
				}
				if strings.HasPrefix(nm, "gone") {
					return "C18.jar.server-expired-cookie-stored", fmt.Sprintf("cookie %s is returned although the only Set-Cookie line that ever carried it expired it on arrival (Max-Age=-1 / an Expires date in 1994)", e)
				}
				pth := e[strings.LastIndexByte(e, ';')+1:]
				for _, m := range model[hostKey(host)] {
					if m.name+"="+m.value+";"+m.path == e {
						if !m.expires.IsZero() && !m.expires.After(now) {
							return "C18.jar.expired", fmt.Sprintf("cookie %s expired at %s (now %s) but is still returned", e, m.expires.Format("05.000"), now.Format("05.000"))
						}
						return "C18.jar.path", fmt.Sprintf("cookie %s (path %q) returned for request path %q, of which its path is not a prefix", e, m.path, reqPath)
					}
				}
				hks := make([]string, 0, len(model))
				for hk := range model {
					hks = append(hks, hk)
				}
				sort.Strings(hks)
				for _, hk := range hks {
					lst := model[hk]
					if hk == hostKey(host) {
						continue
					}
					for _, m := range lst {
						if m.name+"="+m.value+";"+m.path == e {
							return "C18.jar.otherhost", fmt.Sprintf("cookie %s stored for host %s returned for host %s", e, hk, host)
						}
					}
				}
				_ = nm
				_ = pth
				return "C18.jar.stale-value", fmt.Sprintf("cookie %s is not in the jar (replaced, removed by the server, or never stored)", e)
			}
		}
		for _, e := range exp {
			if haveSet[e] == 0 {
				return "C18.jar.missing", fmt.Sprintf("cookie %s (stored, unexpired, path matches %q) is not returned", e, reqPath)
			}
		}
		return "", ""
	}
	checkAll := func(after string) bool {
		now := time.Now()
		for _, hst := range hosts {
			for _, rp := range reqPaths {
				have := strings.Join(got(hst, rp), ",")
				exp := expect(hst, rp, now)
				inv := expectRule(hst, rp, now, true)
				keepBoundary = true
				expB := expect(hst, rp, now)
				invB := expectRule(hst, rp, now, true)
				keepBoundary = false
				if have == strings.Join(exp, ",") || have == strings.Join(expB, ",") {
					continue
				}
				if have == strings.Join(inv, ",") || have == strings.Join(invB, ",") {
					if !pathDirectionReported {
						pathDirectionReported = true
						s.Fail("C18.jar.path-direction", "after %s: Get(http://%s%s) = [%s], reference jar says %v: the jar returns the cookies whose path starts with the request path instead of those whose path is a prefix of it", after, hst, rp, have, exp)
					}
					continue
				}
				id, why := classify(hst, rp, exp, got(hst, rp), now)
				if id == "" {
					id, why = "C18.jar.mismatch", "multisets differ"
				}
				s.Fail(id, "after %s: Get(http://%s%s) = [%s], reference jar says %v: %s", after, hst, rp, have, exp, why)
				return false
			}
		}
		return true
	}

	h := newHasher().str(cfgLine)
	expiredSeen, replaced := false, false
	for i := 0; i < nops; i++ {
		now := time.Now()
		kind := [...]int{0, 1, 2, 3, 4, 5, 6, 6, 7, 3, 6}[s.Draw(11)]
		var desc string
		switch kind {
		case 0, 1: // SetByHost / Set with explicit cookie
			hst := hosts[s.Draw(len(hosts))]
			e := &jarEntry{name: names[s.Draw(len(names))], path: paths[s.Draw(len(paths))], value: "v" + strconv.Itoa(i)}
			ck := fasthttp.AcquireCookie()
			ck.SetKey(e.name)
			ck.SetValue(e.value)
			ck.SetPath(e.path)
			if s.Chance(400) {
				d := time.Duration(s.Range(1, 6)) * time.Second
				e.expires = now.Add(d)
				ck.SetExpire(e.expires)
			} else if s.Chance(200) {
				// stored already expired: whatever it replaces is gone, and it is never handed out itself
				e.expires = now.Add(-time.Hour)
				ck.SetExpire(e.expires)
				s.Count("probe_expired_cookie_stored_through_api")
			}
			if kind == 0 {
				jar.SetByHost([]byte(hst), ck)
				desc = fmt.Sprintf("SetByHost(%s, %s=%s path=%s expires=%v)", hst, e.name, e.value, e.path, !e.expires.IsZero())
			} else {
				u := fasthttp.AcquireURI()
				_ = u.Parse([]byte(hst), []byte("http://"+hst+"/whatever"))
				jar.Set(u, ck)
				fasthttp.ReleaseURI(u)
				desc = fmt.Sprintf("Set(http://%s/whatever, %s=%s path=%s expires=%v)", hst, e.name, e.value, e.path, !e.expires.IsZero())
			}
			fasthttp.ReleaseCookie(ck)
			for _, x := range model[hostKey(hst)] {
				if x.name == e.name && samePath(x.path, e.path) {
					replaced = true
				}
			}
			store(hst, e, now)
		case 2: // SetKeyValue
			hst := hosts[s.Draw(len(hosts))]
			e := &jarEntry{name: names[s.Draw(len(names))], value: "kv" + strconv.Itoa(i)}
			jar.SetKeyValue(hst, e.name, e.value)
			desc = fmt.Sprintf("SetKeyValue(%s, %s, %s)", hst, e.name, e.value)
			store(hst, e, now)
		case 3, 4, 5: // a request whose response sets / replaces / expires cookies
			hst := hosts[s.Draw(len(hosts))]
			rp := reqPaths[s.Draw(len(reqPaths))]
			req := cl.R()
			n := s.Range(0, 2)
			var sets []string
			var entries []*jarEntry
			for j := 0; j < n; j++ {
				e := &jarEntry{name: names[s.Draw(len(names))], path: paths[s.Draw(len(paths))], value: fmt.Sprintf("r%d.%d", i, j)}
				ma := simrt.PickS(s, 0, 3, -1, 5, 0, -2, -3)
				if ma <= -2 {
					s.Count("probe_set_cookie_max_age_and_expires_disagree")
				}
				if ma > 0 {
					e.expires = now.Add(time.Duration(ma) * time.Second)
				} else if ma == -3 {
					e.expires = now.Add(5 * time.Second)
				} else if ma < 0 {
					e.expires = now.Add(-time.Hour)
				}
				dup := false
				for _, x := range entries {
					if x.name == e.name { // one Set-Cookie per name: fasthttp's response header keeps the last one
						dup = true
					}
				}
				if dup {
					continue
				}
				entries = append(entries, e)
				sets = append(sets, fmt.Sprintf("%s|%s|%s|%d", e.name, e.value, e.path, ma))
				req.AddHeader("X-Set", sets[len(sets)-1])
			}
			if s.Chance(200) {
				// in front of them a cookie that is expired on arrival, in a spelling fasthttp's parser does not
				// accept (a negative Max-Age, an RFC 850 date): whatever a client makes of the line, it must
				// never hand the cookie out
				raw := fmt.Sprintf("gone%d=v; %s; Path=%s", i, simrt.PickS(s, "Max-Age=-1", "Expires=Sunday, 06-Nov-94 08:49:37 GMT"), paths[s.Draw(len(paths))])
				req.AddHeader("X-Raw-Set", raw)
				sets = append(sets, "raw: "+raw)
				s.Count("probe_set_cookie_line_fasthttp_cannot_parse")
			}
			if !strings.HasPrefix(hst, "[") && s.Chance(150) {
				other := hosts[s.Draw(len(hosts))]
				if hostKey(other) != hostKey(hst) {
					nm := "dom" + strconv.Itoa(i)
					raw := fmt.Sprintf("%s=v; Domain=%s%s; Path=/%s", nm, simrt.PickS(s, "", "."), hostKey(other), simrt.PickS(s, "", "; Max-Age=0"))
					req.AddHeader("X-Raw-Set", raw)
					sets = append(sets, "raw: "+raw)
					domOrigin[nm] = hostKey(hst)
					s.Count("probe_set_cookie_with_domain_of_another_host")
				}
			}
			keepBoundary = false
			cands := [][]string{expect(hst, rp, now), nil, expectRule(hst, rp, now, true), nil}
			keepBoundary = true
			cands[1], cands[3] = expect(hst, rp, now), expectRule(hst, rp, now, true)
			keepBoundary = false
			resp, err := req.Get("http://" + hst + rp)
			desc = fmt.Sprintf("GET http://%s%s with Set-Cookie %v", hst, rp, sets)
			if err != nil {
				client.ReleaseRequest(req)
				s.Fail("C18.jar.request", "%s failed: %v", desc, err)
				break
			}
			// what went over the wire must be what the jar holds for that URL
			wire := strings.Split(string(resp.Body()), "; ")
			if len(wire) == 1 && wire[0] == "" {
				wire = nil
			}
			wireOther := ""
			for wi := 0; wi < len(wire); wi++ {
				if o, ok := domOrigin[strings.SplitN(wire[wi], "=", 2)[0]]; ok {
					if o != hostKey(hst) {
						wireOther = wire[wi]
					}
					wire = append(wire[:wi], wire[wi+1:]...)
					wi--
				}
			}
			if wireOther != "" {
				s.Fail("C18.jar.otherhost", "%s: cookie %s, which another host sent with a Domain attribute, goes over the wire to %s", desc, wireOther, hst)
			}
			sort.Strings(wire)
			match := -1
			ambiguous := false
			for ci, cand := range cands {
				var nv []string
				seen := map[string]bool{}
				for _, w := range cand {
					x := w[:strings.LastIndexByte(w, ';')]
					nm := strings.SplitN(x, "=", 2)[0]
					if seen[nm] {
						ambiguous = true // two cookies of one name (different paths): which is sent is not specified by the statement
					}
					seen[nm] = true
					nv = append(nv, x)
				}
				sort.Strings(nv)
				if match < 0 && strings.Join(nv, ",") == strings.Join(wire, ",") {
					match = ci
				}
			}
			switch {
			case ambiguous || match == 0 || match == 1:
			case match >= 2:
				if !pathDirectionReported {
					pathDirectionReported = true
					s.Fail("C18.jar.path-direction", "%s: Cookie header on the wire %v, reference jar says %v: the jar returns the cookies whose path starts with the request path instead of those whose path is a prefix of it", desc, wire, cands[0])
				}
			default:
				id := "C18.jar.wire"
				for _, w := range wire {
					if strings.HasPrefix(w, "gone") {
						id = "C18.jar.server-expired-cookie-stored"
					}
				}
				s.Fail(id, "%s: Cookie header on the wire %v, jar should hold %v for that URL", desc, wire, cands[0])
			}
			resp.Close() // also releases the request
			for _, e := range entries {
				for _, x := range model[hostKey(hst)] {
					if x.name == e.name && samePath(x.path, e.path) {
						replaced = true
					}
				}
				store(hst, e, now)
			}
		case 6: // time passes
			d := time.Duration(s.Range(1, 4)) * time.Second
			simrt.Sleep(d)
			desc = fmt.Sprintf("sleep %v", d)
			for _, lst := range model {
				for _, e := range lst {
					if !e.expires.IsZero() && !e.expires.After(time.Now()) {
						expiredSeen = true
					}
				}
			}
		case 7:
			if s.Chance(300) {
				client.ReleaseCookieJar(jar)
				jar = client.AcquireCookieJar()
				cl.SetCookieJar(jar)
				model = map[string][]*jarEntry{}
				desc = "ReleaseCookieJar + AcquireCookieJar"
			} else {
				// unrelated traffic on the cookie pool
				c1 := fasthttp.AcquireCookie()
				c1.SetKey("unrelated")
				c1.SetValue("zzz")
				fasthttp.ReleaseCookie(c1)
				desc = "unrelated cookie pool traffic"
			}
		}
		s.Logf("step %d: %s", i, desc)
		h.int(kind)
		if !checkAll(desc) {
			break
		}
		if n := s.NumFailures(); n > 1 || (n == 1 && !pathDirectionReported) {
			break // something other than the known path-direction deviation failed
		}
	}
	if expiredSeen {
		s.Count("probe_cookie_expired_in_jar")
	}
	if replaced {
		s.Count("probe_cookie_replaced")
	}
	info.StateHash = h.h
	info.Nontrivial = expiredSeen || replaced
	info.Sample = map[string]any{"config": cfgLine}
}

// ---- (c) fidelity ---------------------------------------------------------------------
//
// One run = a history of 1-4 requests on one client.Client and, in a third of the runs,
// also on the package's default client (client.Replace). Every request is configured
// through a different mix of the setters the API offers for the same thing (single,
// map, struct, Config), with another HTTP method, body kind (raw, JSON, XML, CBOR,
// url-encoded form, multipart with files), time-out and transport delay. The history is
// sent twice (a, b) on fresh clients: the second time Go maps are walked in another
// order and the pooled Request / File objects are the ones history a released. A real
// fiber app reports what it parsed; the check compares clause by clause.
//
// Values are "<nasty text>~<tag>" where the tag names who configured it (C / D: the
// clients, r0..rN: the requests), so that anything arriving with the tag of ANOTHER
// request is known to be a leftover of a pooled object.

const fidSep = "~"

type fidKV struct{ k, v string }

type fidKVs struct {
	k  string
	vs []string
}

type fidCall struct {
	op   string // add | set | setmap | addmap | struct
	k, v string
	m1   map[string]string
	mm   map[string][]string
	st   any
}

// the setters of one multi-valued component (headers, query parameters, form fields) at one level
type fidMultiAPI struct {
	add, set  func(k, v string)
	setMap    func(map[string]string)
	addMap    func(map[string][]string)
	setStruct func(any)
}

var fidSetterNames = map[string][5]string{
	"header": {"AddHeader", "SetHeader", "SetHeaders", "AddHeaders", "-"},
	"param":  {"AddParam", "SetParam", "SetParams", "AddParams", "SetParamsWithStruct"},
	"form":   {"AddFormData", "SetFormData", "SetFormDataWithMap", "AddFormDataWithMap", "SetFormDataWithStruct"},
	"cookie": {"-", "SetCookie", "SetCookies", "-", "SetCookiesWithStruct"},
	"path":   {"-", "SetPathParam", "SetPathParams", "-", "SetPathParamsWithStruct"},
}

func (c fidCall) describe(kind string) string {
	n := fidSetterNames[kind]
	switch c.op {
	case "add":
		return fmt.Sprintf("%s(%q,%q)", n[0], c.k, c.v)
	case "set":
		return fmt.Sprintf("%s(%q,%q)", n[1], c.k, c.v)
	case "setmap":
		return fmt.Sprintf("%s(%q)", n[2], c.m1)
	case "addmap":
		return fmt.Sprintf("%s(%q)", n[3], c.mm)
	default:
		return fmt.Sprintf("%s(%+v)", n[4], c.st)
	}
}

func fidDescribe(kind string, calls []fidCall) string {
	var out []string
	for _, c := range calls {
		out = append(out, c.describe(kind))
	}
	return strings.Join(out, " ")
}

func fidApply(calls []fidCall, api fidMultiAPI) {
	for _, c := range calls {
		switch c.op {
		case "add":
			api.add(c.k, c.v)
		case "set":
			api.set(c.k, c.v)
		case "setmap":
			m := make(map[string]string, len(c.m1))
			for k, v := range c.m1 {
				m[k] = v
			}
			api.setMap(m)
		case "addmap":
			m := make(map[string][]string, len(c.mm))
			for k, v := range c.mm {
				m[k] = append([]string(nil), v...)
			}
			api.addMap(m)
		case "struct":
			api.setStruct(c.st)
		}
	}
}

// fidMulti: a multi-valued component at one level: what must arrive and the calls that say so.
type fidMulti struct {
	kind      string
	items     []fidKVs // key -> values configured (all of them must arrive)
	dropped   []fidKV  // the value(s) of one key added first (once, twice or three times) and then overridden by a Set of that key
	overrider string   // the call that overrides them
	level     string   // client | request
	calls     []fidCall
	mapSetter bool // a map-taking setter was given two or more keys
}

// fidSingle: a single-valued component (cookies, path parameters) at one level.
type fidSingle struct {
	kind  string
	items []fidKV
	calls []fidCall
}

func (m *fidSingle) get(k string) (string, bool) {
	if m == nil {
		return "", false
	}
	for _, e := range m.items {
		if e.k == k {
			return e.v, true
		}
	}
	return "", false
}

type fidParamStruct struct {
	PS string   `param:"ps"`
	PI int      `param:"pi"`
	PL []string `param:"pl"`
}

type fidFormStruct struct {
	FS string   `form:"fs"`
	FI int      `form:"fi"`
	FL []string `form:"fl"`
}

type fidCookieStruct struct {
	SA string `cookie:"sca"`
	SN int    `cookie:"scn"`
}

type fidPathStruct struct {
	Name string `path:"name"`
	Idx  int    `path:"idx"`
}

type fidJSONDoc struct {
	S string            `json:"s"`
	N int               `json:"n"`
	L []string          `json:"l"`
	M map[string]string `json:"m"`
}

type fidXMLDoc struct {
	XMLName xml.Name `xml:"doc"`
	S       string   `xml:"s"`
	N       int      `xml:"n,attr"`
	L       []string `xml:"l"`
}

type fidCBORDoc struct {
	S string
	N int
	L []string
}

// files on disk for Request.AddFile / SetFilePath: written once per process, fixed names and contents
var (
	fidDiskOnce sync.Once
	fidDiskDir  string
	fidDisk     = []struct{ name, content string }{
		{"plain.txt", "plain file content\n"},
		{"with space.txt", "content of the file with a space in its name"},
		{"ünï.bin", "\x00\x01\x02\xff binary\r\n--x\r\n--"},
		{"empty.dat", ""},
		{"q\"uo'te;a&b=c.txt", "line1\r\nline2\r\n\r\n"},
		{"big.bin", strings.Repeat("0123456789abcdef", 600)},
	}
)

func fidDiskFiles() {
	fidDiskOnce.Do(func() {
		dir, err := os.MkdirTemp("", "vsim-c18-")
		if err != nil {
			panic(err)
		}
		fidDiskDir = dir
		for _, f := range fidDisk {
			if err := os.WriteFile(filepath.Join(dir, f.name), []byte(f.content), 0o644); err != nil {
				panic(err)
			}
		}
	})
}

type fidFile struct {
	how     int
	disk    int    // index into fidDisk, -1 = content comes from a reader
	name    string // the file name the server must see
	field   string // "" = not configured (the client picks one)
	content string
}

func (f *fidFile) path() string { return filepath.Join(fidDiskDir, fidDisk[f.disk].name) }

func (f *fidFile) describe() string {
	src := "reader"
	if f.disk >= 0 {
		src = "<tmp>/" + fidDisk[f.disk].name
	}
	how := [...]string{"AddFile(path)", "AddFileWithReader(name,r)", "AddFiles(AcquireFile(SetFilePath))", "AddFiles(AcquireFile(SetFilePath,SetFileFieldName))",
		"AddFiles(AcquireFile(SetFileName,SetFileReader,SetFileFieldName))", "f=AcquireFile();f.SetName;f.SetFieldName;f.SetReader;AddFiles(f)",
		"f=AcquireFile();f.SetPath;f.SetName;AddFiles(f)", "AddFiles(AcquireFile(SetFileName,SetFileReader))"}[f.how]
	return fmt.Sprintf("{%s src=%s name=%q field=%q %d bytes}", how, src, f.name, f.field, len(f.content))
}

// acquire builds the *client.File for the AddFiles variants (how >= 2).
func (f *fidFile) acquire() *client.File {
	rd := func() io.ReadCloser { return io.NopCloser(strings.NewReader(f.content)) }
	switch f.how {
	case 2:
		return client.AcquireFile(client.SetFilePath(f.path()))
	case 3:
		return client.AcquireFile(client.SetFilePath(f.path()), client.SetFileFieldName(f.field))
	case 4:
		return client.AcquireFile(client.SetFileName(f.name), client.SetFileReader(rd()), client.SetFileFieldName(f.field))
	case 5:
		x := client.AcquireFile()
		x.SetName(f.name)
		x.SetFieldName(f.field)
		x.SetReader(rd())
		return x
	case 6:
		x := client.AcquireFile()
		x.SetPath(f.path())
		x.SetName(f.name)
		return x
	default:
		return client.AcquireFile(client.SetFileName(f.name), client.SetFileReader(rd()))
	}
}

type fidBody struct {
	kind      string // none | raw | json | xml | cbor | form | multipart
	raw       []byte
	jv        *fidJSONDoc
	xv        *fidXMLDoc
	cv        *fidCBORDoc
	form      *fidMulti
	files     []*fidFile
	boundary  string // "" = the default
	formFirst bool   // form fields are set before the files are added
	together  bool   // the AcquireFile files go into one AddFiles call
}

type fidClient struct {
	tag     string
	hdr, q  *fidMulti
	ck, pp  *fidSingle
	ua, ref string
	// the client-level user agent / referer given through the generic header API instead of the dedicated setter
	uaViaHeader, refViaHeader bool
	// one more cookie given as a Cookie header through the generic header API ("" = none)
	ckHeader string
	timeout  time.Duration
	baseURL  bool
}

type fidReq struct {
	idx     int
	tag     string
	cli     int // index into the clients
	acquire int // 0 cl.R() · 1 AcquireRequest().SetClient(cl) · 2 AcquireRequest() (default client) · 3 cl.<Method>(url, Config) · 4 client.<Method>(url, Config)
	release int // 0 resp.Close() · 1 ReleaseRequest + ReleaseResponse · 2 neither
	method  string
	fire    int // 0 req.<Method>(url) · 1 req.Custom(url, method) · 2 SetMethod+SetURL+Send
	hdr, q  *fidMulti
	ck, pp  *fidSingle
	ua, ref string
	timeout time.Duration
	delay   time.Duration
	inurl   bool
	body    fidBody
	// request-level settings a user request hook makes on the Request it is given, i.e. last, just before it is sent
	hookTimeout      time.Duration
	hookUA, hookRef  string
	hookHdr, hookPar string // SetHeader("X-Hook", v) / SetParam("hq", v); "" = not set
	fault            string // "" · reqhook (a user request hook fails) · resphook (a user response hook fails) · transport (the transport returns an error)
	pair             bool   // this request and the next one are acquired and configured before either is sent
}

func (rq *fidReq) conv() bool { return rq.acquire >= 3 }

// the request-level values in force when the request is sent: what a request hook set last wins
func (rq *fidReq) effTimeout() time.Duration {
	if rq.hookTimeout > 0 {
		return rq.hookTimeout
	}
	return rq.timeout
}

func (rq *fidReq) effUA() string {
	if rq.hookUA != "" {
		return rq.hookUA
	}
	return rq.ua
}

func (rq *fidReq) effRef() string {
	if rq.hookRef != "" {
		return rq.hookRef
	}
	return rq.ref
}

func (rq *fidReq) hooked() bool {
	return rq.hookTimeout > 0 || rq.hookUA != "" || rq.hookRef != "" || rq.hookHdr != "" || rq.hookPar != ""
}

var errFidHook = errors.New("injected hook error")

var (
	fidValAlpha    = []string{"plain", "with space", "a&b=c", "ü", "", "x/y?z", "q\"uote", "per%cent", "semi;colon", "plus+", "#hash", "%41lias", "comma,sep"}
	fidHdrAlpha    = []string{"plain", "with space", "a&b=c", "ü", "", "x/y?z", "q\"uote", "per%cent", "semi;colon", "plus+", "comma,sep", "colon: x"}
	fidCookieAlpha = []string{"cv", "a=b", "x%20y", "1+1", "a&b", "sl/ash", "q?m", "co:lon"}
	fidPathAlpha   = []string{"v", "with space", "a&b=c", "ü", "q\"uote", "semi;colon", "plus+", "eq=", "at@x", "v1.2"}
	fidTextAlpha   = []string{"plain", "with space", "a&b=c", "ü", "", "q\"uote", "<x>&amp;</x>", "per%cent", "new\nline", "back\\slash"}
	fidRawAlpha    = []string{"raw-plain", "", "a=b&c=d", "\x00\x01\xff\xfe binary", "line1\r\nline2\r\n", "{\"json\":\"like\"}", "ü", strings.Repeat("0123456789abcdef", 600)}
	fidUAAlpha     = []string{"ua", "Mozilla/5.0 (X11; Linux x86_64) ü", "ua with  two spaces", "q\"ua"}
	fidRefAlpha    = []string{"http://ref.example/", "http://ref.example/a b?x=1&y=2#f", "ü-ref"}
	fidFNameAlpha  = []string{"r.txt", "with space.txt", "ü.bin", "q\"uote.txt", "semi;colon.txt", "a&b=c", "per%cent.dat", "plus+"}
	fidFContAlpha  = []string{"hello", "", "line1\r\nline2\r\n", "--FiberFormBoundary", "\r\n--x--\r\n", "\x00\x01\x02\xff\xfe", strings.Repeat("fedcba9876543210", 300)}
	fidFieldAlpha  = []string{"upload", "doc s", "fü", "f\"q", "same", "same"}

	fidCliHdrKeys = []string{"X-C1", "X-C2", "X-Both"}
	fidReqHdrKeys = []string{"X-R1", "X-R2", "X-Both", "X-R3"}
	fidCliQKeys   = []string{"cq1", "cq2", "both", "c k"}
	fidReqQKeys   = []string{"rq1", "rq2", "both", "k e y", "k&k", "kü", "k=k", "k%41"}
	fidFormKeys   = []string{"f1", "f2", "both", "k e y", "k&k", "kü", "k=k", "k%41", "k\"q"}
	fidCliCkKeys  = []string{"cc1", "cc2", "ck", "both"}
	fidReqCkKeys  = []string{"rc1", "rc2", "ck", "both"}
	fidPathNames  = []string{"id", "name", "idx"}
)

type fidGen struct {
	s       *simrt.Sim
	needEsc bool
}

func (g *fidGen) val(alpha []string, tag string) string {
	v := alpha[g.s.Draw(len(alpha))]
	if strings.ContainsAny(v, " &=/?\"%;+ü#,<>\\\r\n\x00") {
		g.needEsc = true
	}
	if v == "" {
		return ""
	}
	return v + fidSep + tag
}

// pick n distinct keys (no loop that depends on the drawn values: a zeroed tape must terminate)
func (g *fidGen) keys(pool []string, n int) []string {
	rest := append([]string(nil), pool...)
	var out []string
	for i := 0; i < n && len(rest) > 0; i++ {
		j := g.s.Draw(len(rest))
		out = append(out, rest[j])
		rest = append(rest[:j], rest[j+1:]...)
	}
	return out
}

func (g *fidGen) multi(kind string, pool, alpha []string, tag string, structOK, conv bool) *fidMulti {
	s := g.s
	m := &fidMulti{kind: kind, level: "request"}
	if tag == "C" || tag == "D" {
		m.level = "client"
	}
	way := 2
	if !conv {
		way = s.Draw(5) // 0 add · 1 set · 2 set with a map · 3 add with a map · 4 struct
	}
	// addOld: a key is added once, twice or three times (one by one or with the multi-map setter) before a
	// setter documented to override previously set values names it again: none of these may arrive.
	// (Not with a Config: the Request it configures is acquired inside the call.)
	addOld := func(k string) {
		n := simrt.PickS(s, 1, 2, 3, 2)
		var olds []string
		for i := 1; i <= n; i++ {
			olds = append(olds, "old"+strconv.Itoa(i)+fidSep+tag)
			m.dropped = append(m.dropped, fidKV{k, olds[i-1]})
		}
		if n > 1 && s.Chance(400) {
			m.calls = append(m.calls, fidCall{op: "addmap", mm: map[string][]string{k: olds}})
			return
		}
		for _, v := range olds {
			m.calls = append(m.calls, fidCall{op: "add", k: k, v: v})
		}
	}
	if way == 4 && !structOK {
		way = 3
	}
	nk := s.Range(0, 3)
	if way == 4 {
		sv, iv := g.val(alpha, tag), s.Draw(1000)
		var lv []string
		for i, n := 0, s.Draw(3); i < n; i++ {
			lv = append(lv, g.val(alpha, tag))
		}
		names := [3]string{"ps", "pi", "pl"}
		var st any = fidParamStruct{PS: sv, PI: iv, PL: lv}
		if kind == "form" {
			names = [3]string{"fs", "fi", "fl"}
			st = fidFormStruct{FS: sv, FI: iv, FL: lv}
		}
		m.items = append(m.items, fidKVs{names[0], []string{sv}}, fidKVs{names[1], []string{strconv.Itoa(iv)}})
		if len(lv) > 0 {
			m.items = append(m.items, fidKVs{names[2], lv})
		}
		if s.Chance(250) {
			addOld(names[0])
			m.overrider = fidCall{op: "struct", st: st}.describe(kind)
		}
		m.calls = append(m.calls, fidCall{op: "struct", st: st})
		way = 0
		if nk > 1 {
			nk = 1
		}
	}
	var single, multi []fidKVs
	for _, k := range g.keys(pool, nk) {
		e := fidKVs{k: k, vs: []string{g.val(alpha, tag)}}
		if !conv && s.Chance(250) {
			e.vs = append(e.vs, g.val(alpha, tag))
			multi = append(multi, e)
		} else {
			single = append(single, e)
		}
		m.items = append(m.items, e)
	}
	addAll := func(l []fidKVs) {
		for _, e := range l {
			for _, v := range e.vs {
				m.calls = append(m.calls, fidCall{op: "add", k: e.k, v: v})
			}
		}
	}
	override := func() {
		if !conv && len(single) > 0 && len(m.dropped) == 0 && s.Chance(300) {
			addOld(single[0].k)
			m.overrider = "?"
		}
	}
	multiFirst := !conv && s.Chance(500) // the keys are distinct: the order of the calls must not matter
	switch way {
	case 0:
		addAll(single)
		addAll(multi)
	case 1:
		if multiFirst {
			addAll(multi)
			multi = nil
		}
		override()
		for i, e := range single {
			m.calls = append(m.calls, fidCall{op: "set", k: e.k, v: e.vs[0]})
			if i == 0 && m.overrider == "?" {
				m.overrider = m.calls[len(m.calls)-1].describe(kind)
			}
		}
		addAll(multi)
	case 2:
		if multiFirst {
			addAll(multi)
			multi = nil
		}
		override()
		if len(single) > 0 {
			mp := map[string]string{}
			for _, e := range single {
				mp[e.k] = e.vs[0]
			}
			m.calls = append(m.calls, fidCall{op: "setmap", m1: mp})
			m.mapSetter = len(single) >= 2
			if m.overrider == "?" {
				m.overrider = m.calls[len(m.calls)-1].describe(kind)
			}
		}
		addAll(multi)
	case 3:
		all := append(append([]fidKVs(nil), single...), multi...)
		if len(all) > 0 {
			mp := map[string][]string{}
			for _, e := range all {
				mp[e.k] = e.vs
			}
			m.calls = append(m.calls, fidCall{op: "addmap", mm: mp})
			m.mapSetter = len(all) >= 2
		}
	}
	return m
}

func (g *fidGen) cookies(pool []string, tag string, conv bool) *fidSingle {
	s := g.s
	m := &fidSingle{kind: "cookie"}
	way := 1
	if !conv {
		way = s.Draw(5) // 0 one by one · 1 map · 2 struct, rest one by one · 3 struct, rest by map · 4 first one alone, rest by map
	}
	if way == 2 || way == 3 {
		st := fidCookieStruct{SA: g.val(fidCookieAlpha, tag), SN: s.Draw(1000)}
		m.items = append(m.items, fidKV{"sca", st.SA}, fidKV{"scn", strconv.Itoa(st.SN)})
		m.calls = append(m.calls, fidCall{op: "struct", st: st})
	}
	var rest []fidKV
	for _, k := range g.keys(pool, s.Range(0, 3)) {
		rest = append(rest, fidKV{k, g.val(fidCookieAlpha, tag)})
	}
	m.items = append(m.items, rest...)
	if way == 4 && len(rest) > 0 {
		m.calls = append(m.calls, fidCall{op: "set", k: rest[0].k, v: rest[0].v})
		rest = rest[1:]
	}
	if (way == 1 || way >= 3) && len(rest) > 0 {
		mp := map[string]string{}
		for _, e := range rest {
			mp[e.k] = e.v
		}
		m.calls = append(m.calls, fidCall{op: "setmap", m1: mp})
	} else {
		for _, e := range rest {
			m.calls = append(m.calls, fidCall{op: "set", k: e.k, v: e.v})
		}
	}
	return m
}

func (g *fidGen) path(names []string, tag string, conv bool) *fidSingle {
	s := g.s
	m := &fidSingle{kind: "path"}
	way := 1
	if !conv {
		way = s.Draw(5) // 0 one by one · 1 map · 2 struct, rest one by one · 3 struct, rest by map · 4 first one alone, rest by map
	}
	has := func(n string) bool {
		for _, x := range names {
			if x == n {
				return true
			}
		}
		return false
	}
	rest := names
	if (way == 2 || way == 3) && has("name") && has("idx") {
		st := fidPathStruct{Name: g.val(fidPathAlpha, tag), Idx: s.Draw(1000)}
		m.items = append(m.items, fidKV{"name", st.Name}, fidKV{"idx", strconv.Itoa(st.Idx)})
		m.calls = append(m.calls, fidCall{op: "struct", st: st})
		rest = nil
		if has("id") {
			rest = []string{"id"}
		}
	}
	var kvs []fidKV
	for _, n := range rest {
		kvs = append(kvs, fidKV{n, g.val(fidPathAlpha, tag)})
	}
	m.items = append(m.items, kvs...)
	if way == 4 && len(kvs) > 0 {
		m.calls = append(m.calls, fidCall{op: "set", k: kvs[0].k, v: kvs[0].v})
		kvs = kvs[1:]
	}
	if (way == 1 || way >= 3) && len(kvs) > 0 {
		mp := map[string]string{}
		for _, e := range kvs {
			mp[e.k] = e.v
		}
		m.calls = append(m.calls, fidCall{op: "setmap", m1: mp})
	} else {
		for _, e := range kvs {
			m.calls = append(m.calls, fidCall{op: "set", k: e.k, v: e.v})
		}
	}
	return m
}

func (g *fidGen) client(tag string) *fidClient {
	s := g.s
	cc := &fidClient{tag: tag}
	cc.hdr = g.multi("header", fidCliHdrKeys, fidHdrAlpha, tag, false, false)
	cc.q = g.multi("param", fidCliQKeys, fidValAlpha, tag, true, false)
	cc.ck = g.cookies(fidCliCkKeys, tag, false)
	var names []string
	for _, n := range fidPathNames {
		if s.Chance(600) {
			names = append(names, n)
		}
	}
	cc.pp = g.path(names, tag, false)
	if s.Chance(600) {
		cc.ua = g.val(fidUAAlpha, tag)
		cc.uaViaHeader = s.Chance(250)
	}
	if s.Chance(600) {
		cc.ref = g.val(fidRefAlpha, tag)
		cc.refViaHeader = s.Chance(250)
	}
	if s.Chance(200) {
		cc.ckHeader = g.val(fidCookieAlpha, tag)
		s.Count("probe_cookie_configured_as_header")
	}
	cc.timeout = simrt.PickS(s, 0, 2*time.Second, 4*time.Second)
	cc.baseURL = s.Chance(300)
	return cc
}

func (g *fidGen) request(i int, clients []*fidClient) *fidReq {
	s := g.s
	rq := &fidReq{idx: i, tag: "r" + strconv.Itoa(i)}
	if len(clients) > 1 && s.Chance(500) {
		rq.cli = 1
	}
	if rq.cli == 0 {
		rq.acquire = [...]int{0, 1, 3, 0}[s.Draw(4)]
	} else {
		rq.acquire = [...]int{2, 4, 2}[s.Draw(3)]
	}
	conv := rq.conv()
	cc := clients[rq.cli]
	rq.method = simrt.PickS(s, "POST", "GET", "PUT", "PATCH", "DELETE", "HEAD", "OPTIONS", "PURGE", "POST", "GET")
	if !conv {
		rq.fire = s.Draw(3)
		rq.release = [...]int{0, 1, 0, 2}[s.Draw(4)]
	} else {
		rq.release = [...]int{0, 0, 2}[s.Draw(3)]
	}
	rq.hdr = g.multi("header", fidReqHdrKeys, fidHdrAlpha, rq.tag, false, conv)
	rq.q = g.multi("param", fidReqQKeys, fidValAlpha, rq.tag, true, conv)
	rq.ck = g.cookies(fidReqCkKeys, rq.tag, conv)
	var names []string
	for _, n := range fidPathNames {
		if _, ok := cc.pp.get(n); !ok || s.Chance(400) {
			names = append(names, n)
		}
	}
	rq.pp = g.path(names, rq.tag, conv)
	if s.Chance(500) {
		rq.ua = g.val(fidUAAlpha, rq.tag)
	}
	if s.Chance(500) {
		rq.ref = g.val(fidRefAlpha, rq.tag)
	}
	if s.Chance(400) {
		rq.timeout = simrt.PickS(s, time.Second, 3*time.Second, 5*time.Second)
	}
	if s.Chance(400) {
		rq.delay = simrt.PickS(s, 500*time.Millisecond, 1500*time.Millisecond, 2500*time.Millisecond, 3500*time.Millisecond, 4500*time.Millisecond, 6*time.Second)
	}
	rq.inurl = s.Chance(300)
	if s.Chance(300) {
		// a user request hook configures the request further (tag <request>h)
		ht := rq.tag + "h"
		if s.Chance(600) {
			rq.hookTimeout = simrt.PickS(s, 3*time.Second, time.Second, 5*time.Second)
			if rq.delay == 0 && s.Chance(700) {
				rq.delay = simrt.PickS(s, 1500*time.Millisecond, 500*time.Millisecond, 2500*time.Millisecond, 3500*time.Millisecond, 4500*time.Millisecond, 6*time.Second)
			}
		}
		if s.Chance(300) {
			rq.hookUA = g.val(fidUAAlpha, ht)
		}
		if s.Chance(300) {
			rq.hookRef = g.val(fidRefAlpha, ht)
		}
		if s.Chance(300) {
			rq.hookHdr = "hv" + fidSep + ht
		}
		if s.Chance(300) {
			rq.hookPar = g.val(fidValAlpha, ht)
			if rq.hookPar == "" {
				rq.hookPar = "hv" + fidSep + ht
			}
		}
	}

	b := &rq.body
	b.kind = "none"
	if rq.method != "GET" && rq.method != "HEAD" {
		kinds := []string{"none", "multipart", "form", "raw", "json", "xml", "cbor", "multipart"}
		if conv {
			kinds = []string{"none", "multipart", "form", "json"}
		}
		b.kind = kinds[s.Draw(len(kinds))]
	}
	text := func() string { return g.val(fidTextAlpha, rq.tag) }
	list := func() []string {
		var l []string
		for i, n := 0, s.Draw(3); i < n; i++ {
			l = append(l, text())
		}
		return l
	}
	switch b.kind {
	case "raw":
		b.raw = []byte(g.val(fidRawAlpha, rq.tag))
	case "json":
		b.jv = &fidJSONDoc{S: text(), N: s.Draw(1000), L: list()}
		for i, n := 0, s.Draw(3); i < n; i++ {
			if b.jv.M == nil {
				b.jv.M = map[string]string{}
			}
			b.jv.M["m"+strconv.Itoa(i)] = text()
		}
	case "xml":
		b.xv = &fidXMLDoc{XMLName: xml.Name{Local: "doc"}, S: text(), N: s.Draw(1000), L: list()}
	case "cbor":
		b.cv = &fidCBORDoc{S: text(), N: s.Draw(1000), L: list()}
	case "form":
		b.form = g.multi("form", fidFormKeys, fidValAlpha, rq.tag, true, conv)
		if len(b.form.items) == 0 {
			b.form.items = append(b.form.items, fidKVs{"f0", []string{"v" + fidSep + rq.tag}})
			if conv {
				b.form.calls = append(b.form.calls, fidCall{op: "setmap", m1: map[string]string{"f0": "v" + fidSep + rq.tag}})
			} else {
				b.form.calls = append(b.form.calls, fidCall{op: "add", k: "f0", v: "v" + fidSep + rq.tag})
			}
		}
	case "multipart":
		nf := s.Range(1, 3)
		for j := 0; j < nf; j++ {
			f := &fidFile{disk: -1}
			if conv {
				f.how = 2 + s.Draw(6)
			} else {
				f.how = s.Draw(8)
			}
			switch f.how {
			case 0, 2, 3, 6:
				f.disk = s.Draw(len(fidDisk))
				f.name, f.content = fidDisk[f.disk].name, fidDisk[f.disk].content
				if f.how == 6 {
					f.name = g.val(fidFNameAlpha, rq.tag)
				}
			default:
				f.name = g.val(fidFNameAlpha, rq.tag)
				f.content = g.val(fidFContAlpha, rq.tag)
			}
			if f.how == 3 || f.how == 4 || f.how == 5 {
				f.field = fidFieldAlpha[s.Draw(len(fidFieldAlpha))]
			}
			b.files = append(b.files, f)
		}
		if !conv {
			b.form = g.multi("form", fidFormKeys, fidValAlpha, rq.tag, true, false)
			b.boundary = simrt.PickS(s, "", "FixedBoundary123", "", "my-boundary_456")
			b.formFirst = s.Chance(500)
			b.together = s.Chance(500)
		}
	}
	return rq
}

func fidHdrAPIClient(c *client.Client) fidMultiAPI {
	return fidMultiAPI{add: func(k, v string) { c.AddHeader(k, v) }, set: func(k, v string) { c.SetHeader(k, v) },
		setMap: func(m map[string]string) { c.SetHeaders(m) }, addMap: func(m map[string][]string) { c.AddHeaders(m) }}
}

func fidParamAPIClient(c *client.Client) fidMultiAPI {
	return fidMultiAPI{add: func(k, v string) { c.AddParam(k, v) }, set: func(k, v string) { c.SetParam(k, v) },
		setMap: func(m map[string]string) { c.SetParams(m) }, addMap: func(m map[string][]string) { c.AddParams(m) },
		setStruct: func(v any) { c.SetParamsWithStruct(v) }}
}

func fidHdrAPIReq(r *client.Request) fidMultiAPI {
	return fidMultiAPI{add: func(k, v string) { r.AddHeader(k, v) }, set: func(k, v string) { r.SetHeader(k, v) },
		setMap: func(m map[string]string) { r.SetHeaders(m) }, addMap: func(m map[string][]string) { r.AddHeaders(m) }}
}

func fidParamAPIReq(r *client.Request) fidMultiAPI {
	return fidMultiAPI{add: func(k, v string) { r.AddParam(k, v) }, set: func(k, v string) { r.SetParam(k, v) },
		setMap: func(m map[string]string) { r.SetParams(m) }, addMap: func(m map[string][]string) { r.AddParams(m) },
		setStruct: func(v any) { r.SetParamsWithStruct(v) }}
}

func fidFormAPIReq(r *client.Request) fidMultiAPI {
	return fidMultiAPI{add: func(k, v string) { r.AddFormData(k, v) }, set: func(k, v string) { r.SetFormData(k, v) },
		setMap: func(m map[string]string) { r.SetFormDataWithMap(m) }, addMap: func(m map[string][]string) { r.AddFormDataWithMap(m) },
		setStruct: func(v any) { r.SetFormDataWithStruct(v) }}
}

func (cc *fidClient) apply(c *client.Client) {
	fidApply(cc.hdr.calls, fidHdrAPIClient(c))
	fidApply(cc.q.calls, fidParamAPIClient(c))
	fidApply(cc.ck.calls, fidMultiAPI{set: func(k, v string) { c.SetCookie(k, v) }, setMap: func(m map[string]string) { c.SetCookies(m) }, setStruct: func(v any) { c.SetCookiesWithStruct(v) }})
	fidApply(cc.pp.calls, fidMultiAPI{set: func(k, v string) { c.SetPathParam(k, v) }, setMap: func(m map[string]string) { c.SetPathParams(m) }, setStruct: func(v any) { c.SetPathParamsWithStruct(v) }})
	switch {
	case cc.ua != "" && cc.uaViaHeader:
		c.SetHeader("User-Agent", cc.ua)
	case cc.ua != "":
		c.SetUserAgent(cc.ua)
	}
	switch {
	case cc.ref != "" && cc.refViaHeader:
		c.SetHeader("Referer", cc.ref)
	case cc.ref != "":
		c.SetReferer(cc.ref)
	}
	if cc.ckHeader != "" {
		c.SetHeader("Cookie", "hck="+cc.ckHeader)
	}
	if cc.timeout > 0 {
		c.SetTimeout(cc.timeout)
	}
	if cc.baseURL {
		c.SetBaseURL("http://a.example")
	}
}

func (cc *fidClient) describe() string {
	return fmt.Sprintf("client %s: %s | %s | %s | %s | Cookie header hck=%q | ua=%q referer=%q timeout=%v baseURL=%v", cc.tag, fidDescribe("header", cc.hdr.calls), fidDescribe("param", cc.q.calls),
		fidDescribe("cookie", cc.ck.calls), fidDescribe("path", cc.pp.calls), cc.ckHeader, cc.ua, cc.ref, cc.timeout, cc.baseURL)
}

func (rq *fidReq) describe() string {
	acq := [...]string{"cl.R()", "AcquireRequest().SetClient(cl)", "AcquireRequest() [default client]", "cl.<Method>(url, Config)", "client.<Method>(url, Config) [default client]"}[rq.acquire]
	fire := [...]string{"req.<Method>(url)", "req.Custom(url, method)", "SetMethod+SetURL+Send"}[rq.fire]
	rel := [...]string{"resp.Close()", "ReleaseRequest+ReleaseResponse", "not released"}[rq.release]
	b := rq.body
	body := b.kind
	switch b.kind {
	case "raw":
		body = fmt.Sprintf("SetRawBody(%d bytes %.40q)", len(b.raw), b.raw)
	case "json":
		body = fmt.Sprintf("SetJSON(%+v)", *b.jv)
	case "xml":
		body = fmt.Sprintf("SetXML(%+v)", *b.xv)
	case "cbor":
		body = fmt.Sprintf("SetCBOR(%+v)", *b.cv)
	case "form":
		body = "form: " + fidDescribe("form", b.form.calls)
	case "multipart":
		var fs []string
		for _, f := range b.files {
			fs = append(fs, f.describe())
		}
		body = fmt.Sprintf("multipart boundary=%q formFirst=%v oneAddFiles=%v files=%s", b.boundary, b.formFirst, b.together, strings.Join(fs, " "))
		if b.form != nil {
			body += " fields: " + fidDescribe("form", b.form.calls)
		}
	}
	if rq.hooked() {
		body += fmt.Sprintf(" | request hook: SetTimeout(%v) SetUserAgent(%q) SetReferer(%q) SetHeader(X-Hook,%q) SetParam(hq,%q) [zero/empty = not called]", rq.hookTimeout, rq.hookUA, rq.hookRef, rq.hookHdr, rq.hookPar)
	}
	if rq.fault != "" {
		body += " | FAULT " + rq.fault
	}
	if rq.pair {
		body += " | acquired together with the next request"
	}
	return fmt.Sprintf("request %s: %s %s via %s, %s, %s | %s | %s | %s | %s | ua=%q referer=%q timeout=%v delay=%v inurl=%v | %s", rq.tag, rq.method, acq, fire, rel,
		[...]string{"client C", "default client D"}[rq.cli], fidDescribe("header", rq.hdr.calls), fidDescribe("param", rq.q.calls), fidDescribe("cookie", rq.ck.calls), fidDescribe("path", rq.pp.calls),
		rq.ua, rq.ref, rq.timeout, rq.delay, rq.inurl, body)
}

// applyTo configures a Request through the setters.
func (rq *fidReq) applyTo(r *client.Request) {
	fidApply(rq.hdr.calls, fidHdrAPIReq(r))
	fidApply(rq.q.calls, fidParamAPIReq(r))
	fidApply(rq.ck.calls, fidMultiAPI{set: func(k, v string) { r.SetCookie(k, v) }, setMap: func(m map[string]string) { r.SetCookies(m) }, setStruct: func(v any) { r.SetCookiesWithStruct(v) }})
	fidApply(rq.pp.calls, fidMultiAPI{set: func(k, v string) { r.SetPathParam(k, v) }, setMap: func(m map[string]string) { r.SetPathParams(m) }, setStruct: func(v any) { r.SetPathParamsWithStruct(v) }})
	if rq.ua != "" {
		r.SetUserAgent(rq.ua)
	}
	if rq.ref != "" {
		r.SetReferer(rq.ref)
	}
	if rq.timeout > 0 {
		r.SetTimeout(rq.timeout)
	}
	b := &rq.body
	switch b.kind {
	case "raw":
		r.SetRawBody(append([]byte(nil), b.raw...))
	case "json":
		r.SetJSON(*b.jv)
	case "xml":
		r.SetXML(*b.xv)
	case "cbor":
		r.SetCBOR(*b.cv)
	case "form":
		fidApply(b.form.calls, fidFormAPIReq(r))
	case "multipart":
		if b.boundary != "" {
			r.SetBoundary(b.boundary)
		}
		if b.formFirst {
			fidApply(b.form.calls, fidFormAPIReq(r))
		}
		var batch []*client.File
		for _, f := range b.files {
			switch {
			case f.how == 0:
				r.AddFile(f.path())
			case f.how == 1:
				r.AddFileWithReader(f.name, io.NopCloser(strings.NewReader(f.content)))
			case b.together:
				batch = append(batch, f.acquire())
				continue
			default:
				r.AddFiles(f.acquire())
			}
			if len(batch) > 0 { // keep the configured order
				r.AddFiles(batch...)
				batch = nil
			}
		}
		if len(batch) > 0 {
			r.AddFiles(batch...)
		}
		if !b.formFirst {
			fidApply(b.form.calls, fidFormAPIReq(r))
		}
	}
}

// config expresses the same configuration as a client.Config (only generated for what a Config can say).
func (rq *fidReq) config() client.Config {
	single := func(m *fidMulti) map[string]string {
		if len(m.items) == 0 {
			return nil
		}
		out := map[string]string{}
		for _, e := range m.items {
			out[e.k] = e.vs[0]
		}
		return out
	}
	singleS := func(m *fidSingle) map[string]string {
		if len(m.items) == 0 {
			return nil
		}
		out := map[string]string{}
		for _, e := range m.items {
			out[e.k] = e.v
		}
		return out
	}
	cfg := client.Config{Header: single(rq.hdr), Param: single(rq.q), Cookie: singleS(rq.ck), PathParam: singleS(rq.pp), UserAgent: rq.ua, Referer: rq.ref, Timeout: rq.timeout}
	switch rq.body.kind {
	case "json":
		cfg.Body = *rq.body.jv
	case "form":
		cfg.FormData = single(rq.body.form)
	case "multipart":
		for _, f := range rq.body.files {
			cfg.File = append(cfg.File, f.acquire())
		}
	}
	return cfg
}

type fidSeenFile struct{ field, name, content string }

type fidSeen struct {
	n                                               int
	method, path, query, ua, referer, cookie, ctype string
	body                                            []byte              // for multipart: as written to the wire (the server only keeps the parsed form)
	hdr                                             map[string][]string // the X-... headers, values in wire order
	mpErr                                           string
	mpValues                                        map[string][]string
	mpFiles                                         []fidSeenFile
}

type fidOutcome struct {
	err     error
	elapsed time.Duration
	status  int
	body    string
	echo    string
	stale   bool // AcquireRequest() handed out a request that was still bound to another client
}

// fidErr renders an error without the per-process name of the temporary directory.
func fidErr(err error) string {
	if err == nil {
		return "<nil>"
	}
	return strings.ReplaceAll(err.Error(), fidDiskDir, "<tmp>")
}

func fidTag(v string) string {
	i := strings.LastIndex(v, fidSep)
	if i < 0 {
		return ""
	}
	return v[i+1:]
}

func clientFidelity(s *simrt.Sim, info *harness.RunInfo) {
	fidDiskFiles()
	faults := s.Chance(400)
	info.Faults = faults
	g := &fidGen{s: s}
	nreq := s.Range(1, harness.Scale(4, 6))
	clients := []*fidClient{g.client("C")}
	if s.Chance(350) {
		clients = append(clients, g.client("D"))
	}
	ntail := 0
	if faults {
		ntail = s.Range(2, 3) // after the requests that may fail the history goes on with 2-3 further ones
	}
	reqs := make([]*fidReq, nreq+ntail)
	allTags := map[string]bool{"C": true, "D": true}
	for i := range reqs {
		reqs[i] = g.request(i, clients)
		allTags[reqs[i].tag] = true
		allTags[reqs[i].tag+"h"] = true // what its request hook sets
		if faults && i < nreq && s.Chance(400) {
			// a user hook or the transport fails this request
			reqs[i].fault = simrt.PickS(s, "resphook", "reqhook", "transport", "resphook")
			reqs[i].delay = 0
		}
	}
	for i := 0; i+1 < len(reqs); i++ {
		// two requests alive at the same time (only where the harness holds the Request objects)
		if faults && !reqs[i].conv() && !reqs[i+1].conv() && !reqs[i].pair && (i == 0 || !reqs[i-1].pair) && s.Chance(400) {
			reqs[i].pair = true
		}
	}
	nreq += ntail
	cfgLine := fmt.Sprintf("fidelity requests=%d clients=%d faults=%v", nreq, len(clients), faults)
	s.Logf("cfg %s", cfgLine)
	h := newHasher().str(cfgLine)
	for _, cc := range clients {
		s.Logf("%s", cc.describe())
		h.str(cc.describe())
	}
	nfiles := 0
	for _, rq := range reqs {
		s.Logf("%s", rq.describe())
		h.str(rq.describe())
		nfiles += len(rq.body.files)
	}

	// the server: a real fiber app that records what it parsed, by the first path segment
	seen := map[string]*fidSeen{}
	app := fiber.New(fiber.Config{RequestMethods: append(append([]string(nil), fiber.DefaultMethods...), "PURGE")})
	app.All("/*", func(c fiber.Ctx) error {
		rh := &c.Request().Header
		p := string(c.Request().URI().Path()) // decoded (c.Path() is the path as sent)
		tok, _, _ := strings.Cut(strings.TrimPrefix(p, "/"), "/")
		sn := &fidSeen{n: 1, method: strings.Clone(c.Method()), path: p, query: string(c.Request().URI().QueryString()), ua: string(rh.UserAgent()), referer: string(rh.Referer()),
			cookie: string(rh.Peek("Cookie")), ctype: string(rh.ContentType()), body: append([]byte(nil), c.Request().Body()...), hdr: map[string][]string{}}
		rh.VisitAll(func(k, v []byte) {
			if strings.HasPrefix(string(k), "X-") {
				sn.hdr[string(k)] = append(sn.hdr[string(k)], string(v))
			}
		})
		if strings.HasPrefix(sn.ctype, "multipart/form-data") {
			form, err := c.MultipartForm()
			if err != nil {
				sn.mpErr = err.Error()
			} else {
				sn.mpValues = map[string][]string{}
				for k, vs := range form.Value {
					for _, v := range vs {
						sn.mpValues[strings.Clone(k)] = append(sn.mpValues[strings.Clone(k)], strings.Clone(v))
					}
				}
				fields := make([]string, 0, len(form.File))
				for k := range form.File {
					fields = append(fields, k)
				}
				sort.Strings(fields)
				for _, k := range fields {
					for _, fh := range form.File[k] {
						sf := fidSeenFile{field: strings.Clone(k), name: strings.Clone(fh.Filename)}
						f, err := fh.Open()
						if err != nil {
							sn.mpErr = "open " + sf.name + ": " + err.Error()
							continue
						}
						data, err := io.ReadAll(f)
						_ = f.Close()
						if err != nil {
							sn.mpErr = "read " + sf.name + ": " + err.Error()
						}
						sf.content = string(data)
						sn.mpFiles = append(sn.mpFiles, sf)
					}
				}
			}
		}
		if old := seen[tok]; old != nil {
			sn.n += old.n
		}
		seen[tok] = sn
		if s.Tracing() {
			var fl []string
			for _, sf := range sn.mpFiles {
				fl = append(fl, fmt.Sprintf("{%q %q %d}", sf.field, sf.name, len(sf.content)))
			}
			s.Logf("server %s: %s %s ?%s ctype=%q body=%d bytes files=%v mperr=%q", tok, sn.method, sn.path, sn.query, sn.ctype, len(sn.body), fl, sn.mpErr)
		}
		c.Set("X-Echo", tok)
		return c.SendString("ok:" + tok)
	})
	app.Handler()
	tr := &simTransport{s: s, app: app, plans: map[string]*tplan{}, wire: map[string][]byte{}}

	// Bookkeeping of the Request objects that are in use: a Request the pool hands out must not be one that
	// somebody still holds (a request object released twice is handed out twice).
	live := map[*client.Request]string{} // Request in use -> token of the request it serves
	hookReq := map[string]*client.Request{}
	aborted := false
	tokOfURL := func(u string) string {
		tok, _, _ := strings.Cut(strings.TrimPrefix(strings.TrimPrefix(u, "http://a.example"), "/"), "/")
		return tok
	}
	faultOf := func(tok string) string {
		if i := atoi(tok[1:]); len(tok) > 1 && i >= 0 && i < len(reqs) {
			return reqs[i].fault
		}
		return ""
	}
	inUse := func(req *client.Request, tok string) {
		if t, ok := live[req]; ok && t != tok {
			s.Fail("C18.fidelity.same-request-object-handed-out-twice", "the Request object acquired for %s is the one still in use by %s (acquired earlier, neither released by the caller nor by the client): whatever is configured on one shows up in the other", tok, t)
			aborted = true
		}
		live[req] = tok
	}
	requestHook := func(_ *client.Client, r *client.Request) error {
		tok := tokOfURL(r.URL())
		hookReq[tok] = r
		inUse(r, tok) // also sees the Request of the shorthand methods, which the caller never holds
		if i := atoi(tok[1:]); len(tok) > 1 && i >= 0 && i < len(reqs) && reqs[i].hooked() {
			rq := reqs[i]
			if rq.hookTimeout > 0 {
				r.SetTimeout(rq.hookTimeout)
			}
			if rq.hookUA != "" {
				r.SetUserAgent(rq.hookUA)
			}
			if rq.hookRef != "" {
				r.SetReferer(rq.hookRef)
			}
			if rq.hookHdr != "" {
				r.SetHeader("X-Hook", rq.hookHdr)
			}
			if rq.hookPar != "" {
				r.SetParam("hq", rq.hookPar)
			}
		}
		if faultOf(tok) == "reqhook" {
			s.Count("fault_request_hook")
			return errFidHook
		}
		return nil
	}
	responseHook := func(_ *client.Client, _ *client.Response, r *client.Request) error {
		if faultOf(tokOfURL(r.URL())) == "resphook" {
			s.Count("fault_response_hook")
			return errFidHook
		}
		return nil
	}
	// prepare acquires and configures the Request (nil for the shorthand methods, which do that inside)
	prepare := func(hn string, cls []*client.Client, rq *fidReq) (*client.Request, bool) {
		if rq.conv() {
			return nil, false
		}
		tok := hn + strconv.Itoa(rq.idx)
		var req *client.Request
		stale := false
		switch rq.acquire {
		case 0:
			req = cls[rq.cli].R()
		case 1:
			req = client.AcquireRequest().SetClient(cls[rq.cli])
		default:
			req = client.AcquireRequest() // no client: Send uses the default client
			if c := req.Client(); c != nil && c != client.C() {
				stale = true
				s.Count("probe_acquired_request_bound_to_other_client")
			}
		}
		inUse(req, tok)
		rq.applyTo(req)
		return req, stale
	}
	send := func(hn string, cls []*client.Client, rq *fidReq, req *client.Request, stale bool) *fidOutcome {
		tok := hn + strconv.Itoa(rq.idx)
		tr.plans[tok] = &tplan{delays: []time.Duration{rq.delay}, fails: []bool{rq.fault == "transport"}}
		cc := clients[rq.cli]
		url := "/" + tok + "/u/:id/n/:name/i/:idx"
		if !cc.baseURL {
			url = "http://a.example" + url
		}
		if rq.inurl {
			url += "?inurl=" + rq.tag + "&both=u" + fidSep + rq.tag
		}
		out := &fidOutcome{stale: stale}
		var resp *client.Response
		var err error
		start := time.Now()
		if rq.conv() {
			cfg := rq.config()
			c := cls[rq.cli]
			if rq.acquire == 4 && rq.method != "PURGE" {
				switch rq.method {
				case "GET":
					resp, err = client.Get(url, cfg)
				case "POST":
					resp, err = client.Post(url, cfg)
				case "PUT":
					resp, err = client.Put(url, cfg)
				case "PATCH":
					resp, err = client.Patch(url, cfg)
				case "DELETE":
					resp, err = client.Delete(url, cfg)
				case "HEAD":
					resp, err = client.Head(url, cfg)
				default:
					resp, err = client.Options(url, cfg)
				}
			} else {
				if rq.acquire == 4 {
					c = client.C()
				}
				switch rq.method {
				case "GET":
					resp, err = c.Get(url, cfg)
				case "POST":
					resp, err = c.Post(url, cfg)
				case "PUT":
					resp, err = c.Put(url, cfg)
				case "PATCH":
					resp, err = c.Patch(url, cfg)
				case "DELETE":
					resp, err = c.Delete(url, cfg)
				case "HEAD":
					resp, err = c.Head(url, cfg)
				case "OPTIONS":
					resp, err = c.Options(url, cfg)
				default:
					resp, err = c.Custom(url, rq.method, cfg)
				}
			}
		} else {
			switch {
			case rq.fire == 2:
				resp, err = req.SetMethod(rq.method).SetURL(url).Send()
			case rq.fire == 1 || rq.method == "PURGE":
				resp, err = req.Custom(url, rq.method)
			default:
				switch rq.method {
				case "GET":
					resp, err = req.Get(url)
				case "POST":
					resp, err = req.Post(url)
				case "PUT":
					resp, err = req.Put(url)
				case "PATCH":
					resp, err = req.Patch(url)
				case "DELETE":
					resp, err = req.Delete(url)
				case "HEAD":
					resp, err = req.Head(url)
				default:
					resp, err = req.Options(url)
				}
			}
		}
		out.elapsed = time.Since(start)
		out.err = err
		if req == nil {
			req = hookReq[tok]
		}
		released := false
		if err == nil {
			out.status = resp.StatusCode()
			out.body = string(resp.Body())
			out.echo = strings.Clone(resp.Header("X-Echo"))
			switch rq.release {
			case 0:
				resp.Close()
				released = true
			case 1:
				client.ReleaseRequest(req)
				client.ReleaseResponse(resp)
				released = true
			}
		} else if rq.fault == "resphook" || rq.conv() {
			// the client closes the response, and with it the request, when a response hook fails; and nobody but the
			// client ever held the Request of a failed shorthand call: it is free to recycle it
			released = true
		} else if rq.release != 2 {
			client.ReleaseRequest(req)
			released = true
		}
		if released && req != nil {
			delete(live, req)
		}
		s.Logf("%s %s done after %v err=%s status=%d echo=%q", tok, rq.method, out.elapsed, fidErr(err), out.status, out.echo)
		return out
	}
	history := func(hn string) []*fidOutcome {
		cls := make([]*client.Client, len(clients))
		for i, cc := range clients {
			cls[i] = client.NewWithClient(&fasthttp.Client{Transport: tr})
			cc.apply(cls[i])
			cls[i].AddRequestHook(requestHook)
			cls[i].AddResponseHook(responseHook)
		}
		if len(cls) > 1 {
			restore := client.Replace(cls[1])
			defer restore()
		}
		outs := make([]*fidOutcome, len(reqs))
		for i := 0; i < len(reqs) && !aborted; i++ {
			rq := reqs[i]
			req, stale := prepare(hn, cls, rq)
			if rq.pair && !aborted {
				nx := reqs[i+1]
				req2, stale2 := prepare(hn, cls, nx)
				if aborted {
					break
				}
				outs[i] = send(hn, cls, rq, req, stale)
				outs[i+1] = send(hn, cls, nx, req2, stale2)
				i++
				continue
			}
			if aborted {
				break
			}
			outs[i] = send(hn, cls, rq, req, stale)
		}
		simrt.Sleep(8 * time.Second) // requests that timed out still reach the server later
		return outs
	}
	outA := history("a")
	var outB []*fidOutcome
	if !aborted {
		outB = history("b") // same configuration: other map order, pooled objects of history a
	}
	if s.Failed() || aborted {
		return
	}

	once := map[string]bool{}
	stale := false
	fail := func(id, format string, args ...any) {
		id = "C18.fidelity." + id
		if stale {
			// whatever is wrong with this request: it went through a client it was never given
			id = "C18.fidelity.stale-client"
			format = "client.AcquireRequest() returned a pooled Request that is still bound to the client of the request it served before, so a request sent without SetClient (documented to use the default client) went through that client; seen as: " + format
		}
		if once[id] {
			return
		}
		once[id] = true
		s.Fail(id, format, args...)
	}
	count := func(l []string, v string) int {
		n := 0
		for _, x := range l {
			if x == v {
				n++
			}
		}
		return n
	}
	sortedKeys := func(m map[string][]string) []string {
		ks := make([]string, 0, len(m))
		for k := range m {
			ks = append(ks, k)
		}
		sort.Strings(ks)
		return ks
	}
	// checkMulti: every configured value arrived; no overridden value; nothing tagged by another request
	checkMulti := func(tok, comp, raw string, got map[string][]string, srcs []*fidMulti, extra []fidKVs, own map[string]bool) {
		need := map[fidKV]int{}
		var order []fidKV
		add := func(k, v string) {
			if need[fidKV{k, v}] == 0 {
				order = append(order, fidKV{k, v})
			}
			need[fidKV{k, v}]++
		}
		for _, e := range extra {
			for _, v := range e.vs {
				add(e.k, v)
			}
		}
		for _, m := range srcs {
			if m == nil {
				continue
			}
			for _, e := range m.items {
				for _, v := range e.vs {
					add(e.k, v)
				}
			}
		}
		for _, e := range order {
			if have := count(got[e.k], e.v); have < need[e] {
				fail(comp, "%s: %s %q=%q configured %d time(s) arrived %d time(s); the server saw %q for that name (%s)", tok, comp, e.k, e.v, need[e], have, got[e.k], raw)
			}
		}
		for _, m := range srcs {
			if m == nil {
				continue
			}
			for _, d := range m.dropped {
				if count(got[d.k], d.v) > 0 {
					// one earlier value: the plain case; several earlier values: one id per component and level
					id := "override"
					if len(m.dropped) > 1 {
						id = "override." + comp + "-" + m.level
					}
					fail(id, "%s: %s-level %s %q was added %d time(s) and then overridden with %s (documented to override the previously set values), but %q still arrived: the server saw %q", tok, m.level, comp, d.k, len(m.dropped), m.overrider, d.v, got[d.k])
				}
			}
		}
		for _, k := range sortedKeys(got) {
			for _, v := range got[k] {
				if t := fidTag(v); allTags[t] && !own[t] {
					fail("leftover", "%s: %s %q=%q arrived, which was configured on %s, not on this request or its client (%s)", tok, comp, k, v, t, raw)
				}
			}
		}
	}
	truncate := func(b []byte) string {
		if len(b) > 300 {
			return fmt.Sprintf("%q... (%d bytes)", b[:300], len(b))
		}
		return fmt.Sprintf("%q", b)
	}

	check := func(hn string, rq *fidReq, out *fidOutcome) {
		tok := hn + strconv.Itoa(rq.idx)
		cc := clients[rq.cli]
		own := map[string]bool{cc.tag: true, rq.tag: true, rq.tag + "h": true}
		stale = out.stale
		defer func() { stale = false }()

		// injected failures: the call returns that error, and a request whose request hook failed is never sent
		if rq.fault != "" {
			what := map[string]string{"reqhook": "a user request hook returned an error", "resphook": "a user response hook returned an error", "transport": "the transport returned an error"}[rq.fault]
			want := errFidHook
			if rq.fault == "transport" {
				want = errTransport
			}
			switch {
			case out.err == nil:
				fail("error-not-returned", "%s: %s for this request, but the call returned no error (status=%d body=%q)", tok, what, out.status, out.body)
			case !errors.Is(out.err, want):
				fail("request", "%s: %s for this request, the call failed with another error: %s", tok, what, fidErr(out.err))
			case rq.fault == "reqhook" && seen[tok] != nil:
				fail("sent-despite-failed-request-hook", "%s: %s, yet the request reached the server", tok, what)
			}
			return
		}

		// time-out: the request-level one decides when set, else the client-level one
		rto := rq.effTimeout() // the request-level one: what a request hook set last, else what the caller set
		eff := rto
		if eff == 0 {
			eff = cc.timeout
		}
		idTO := "timeout"
		if rto > 0 && cc.timeout > 0 {
			idTO = "timeout-precedence"
		}
		toDesc := fmt.Sprintf("request-level timeout %v, client-level timeout %v, transport answers after %v", rq.timeout, cc.timeout, rq.delay)
		if rq.hookTimeout > 0 {
			toDesc = fmt.Sprintf("request-level timeout %v set by the caller and then %v by a user request hook, client-level timeout %v, transport answers after %v", rq.timeout, rq.hookTimeout, cc.timeout, rq.delay)
		}
		if out.err != nil && rto == 0 && out.elapsed != eff {
			for _, o := range reqs {
				if o != rq && o.effTimeout() > 0 && (o.timeout == out.elapsed || o.hookTimeout == out.elapsed) {
					idTO = "leftover" // the time-out of another request struck
					toDesc += fmt.Sprintf("; %v is a request-level timeout of %s", out.elapsed, o.tag)
					break
				}
			}
		}
		if rto > 0 && cc.timeout > 0 && rq.delay > min(rto, cc.timeout) && rq.delay < max(rto, cc.timeout) {
			s.Count("probe_timeout_precedence_decides_outcome")
		}
		if rq.hookTimeout > 0 && rq.fault == "" {
			before := rq.timeout
			if before == 0 {
				before = cc.timeout
			}
			if (before > 0 && rq.delay > before) != (rq.delay > rq.hookTimeout) {
				s.Count("probe_timeout_set_in_request_hook_decides_outcome")
			}
		}
		if eff > 0 && rq.delay > eff {
			switch {
			case out.err == nil:
				fail(idTO, "%s: answered after %v although the effective timeout is %v (%s)", tok, out.elapsed, eff, toDesc)
			case !errors.Is(out.err, client.ErrTimeoutOrCancel):
				fail("request", "%s: failed with %s (%s)", tok, fidErr(out.err), toDesc)
			case out.elapsed != eff:
				fail(idTO, "%s: timed out after %v, the effective timeout is %v (%s)", tok, out.elapsed, eff, toDesc)
			}
			return
		}
		if out.err != nil {
			if errors.Is(out.err, client.ErrTimeoutOrCancel) {
				fail(idTO, "%s: timed out after %v although the effective timeout is %v (%s)", tok, out.elapsed, eff, toDesc)
			} else {
				fail("request", "%s: failed with %s", tok, fidErr(out.err))
			}
			return
		}
		if out.status != 200 || out.echo != tok || (rq.method != "HEAD" && out.body != "ok:"+tok) {
			fail("response", "%s: handed back status=%d X-Echo=%q body=%q: not the response to this request", tok, out.status, out.echo, out.body)
		}
		sn := seen[tok]
		if sn == nil {
			fail("request", "%s: the request returned without error but never reached the server", tok)
			return
		}
		if strings.HasPrefix(sn.ctype, "multipart/form-data") {
			// fasthttp's server keeps only the parsed form of a multipart body and re-marshals it (in map order) when asked for the body
			sn.body = tr.wire[tok]
		}
		if sn.method != rq.method {
			fail("method", "%s: method %q arrived as %q", tok, rq.method, sn.method)
		}

		// path parameters: request level over client level
		wantSeg := map[string]string{}
		for _, n := range fidPathNames {
			if v, ok := rq.pp.get(n); ok {
				wantSeg[n] = v
			} else {
				wantSeg[n], _ = cc.pp.get(n)
			}
		}
		wantPath := "/" + tok + "/u/" + wantSeg["id"] + "/n/" + wantSeg["name"] + "/i/" + wantSeg["idx"]
		if sn.path != wantPath {
			id := "pathparam"
			for _, seg := range strings.Split(sn.path, "/") {
				if t := fidTag(seg); allTags[t] && !own[t] {
					id = "leftover"
				}
			}
			fail(id, "%s: path %q, expected %q (request level %q, client level %q)", tok, sn.path, wantPath, rq.pp.items, cc.pp.items)
		}

		// user agent, referer
		for _, x := range []struct{ comp, got, rv, cv string }{{"useragent", sn.ua, rq.effUA(), cc.ua}, {"referer", sn.referer, rq.effRef(), cc.ref}} {
			want := x.cv
			if x.rv != "" {
				want = x.rv
			}
			if t := fidTag(x.got); allTags[t] && !own[t] {
				fail("leftover", "%s: %s %q arrived, which was configured on %s", tok, x.comp, x.got, t)
			} else if want != "" && x.got != want {
				fail(x.comp, "%s: %s arrived as %q, expected %q (request level %q, client level %q)", tok, x.comp, x.got, want, x.rv, x.cv)
			}
		}

		// headers and query parameters: request level in addition to client level
		var hookHdr []fidKVs
		if rq.hookHdr != "" {
			hookHdr = []fidKVs{{"X-Hook", []string{rq.hookHdr}}}
		}
		checkMulti(tok, "header", fmt.Sprint(sn.hdr), sn.hdr, []*fidMulti{cc.hdr, rq.hdr}, hookHdr, own)
		var inurl []fidKVs
		if rq.hookPar != "" {
			inurl = append(inurl, fidKVs{"hq", []string{rq.hookPar}})
		}
		if rq.inurl {
			inurl = append(inurl, fidKVs{"inurl", []string{rq.tag}}, fidKVs{"both", []string{"u" + fidSep + rq.tag}})
		}
		checkMulti(tok, "query", "query string "+strconv.Quote(sn.query), parseQuery(sn.query), []*fidMulti{cc.q, rq.q}, inurl, own)

		// cookies: request level wins for the same name
		gotCk := map[string][]string{}
		if sn.cookie != "" {
			for _, p := range strings.Split(sn.cookie, ";") {
				k, v, _ := strings.Cut(strings.TrimPrefix(p, " "), "=")
				gotCk[k] = append(gotCk[k], v)
			}
		}
		wantCk := map[string]string{}
		for _, e := range cc.ck.items {
			wantCk[e.k] = e.v
		}
		for _, e := range rq.ck.items {
			wantCk[e.k] = e.v
		}
		if cc.ckHeader != "" {
			wantCk["hck"] = cc.ckHeader // a header configured on the client: it arrives, next to the cookies of the setters
		}
		for _, k := range sortedKeys(gotCk) {
			for _, v := range gotCk[k] {
				if t := fidTag(v); allTags[t] && !own[t] {
					fail("leftover", "%s: cookie %s=%q arrived, which was configured on %s (Cookie: %q)", tok, k, v, t, sn.cookie)
				}
			}
		}
		wk := make([]string, 0, len(wantCk))
		for k := range wantCk {
			wk = append(wk, k)
		}
		sort.Strings(wk)
		for _, k := range wk {
			if l := gotCk[k]; len(l) != 1 || l[0] != wantCk[k] {
				rv, _ := rq.ck.get(k)
				cv, _ := cc.ck.get(k)
				fail("cookie", "%s: cookie %s arrived as %q, expected %q (request level %q, client level %q; Cookie: %q)", tok, k, l, wantCk[k], rv, cv, sn.cookie)
			}
		}

		// body
		b := &rq.body
		ctype := func(want string) {
			if !strings.HasPrefix(sn.ctype, want) {
				fail("content-type", "%s: %s body arrived with Content-Type %q, expected %s", tok, b.kind, sn.ctype, want)
			}
		}
		bodyLeft := func() bool {
			// a body that belongs to another request
			for _, o := range reqs {
				if t := o.tag; !own[t] && bytes.Contains(sn.body, []byte(fidSep+t)) {
					fail("leftover", "%s: the body contains data configured on %s: %s", tok, t, truncate(sn.body))
					return true
				}
			}
			return false
		}
		switch b.kind {
		case "none":
			if len(sn.body) != 0 && !bodyLeft() {
				fail("body", "%s: no body configured, %s arrived", tok, truncate(sn.body))
			}
		case "raw":
			if !bytes.Equal(sn.body, b.raw) && !bodyLeft() {
				fail("body", "%s: raw body %s arrived as %s", tok, truncate(b.raw), truncate(sn.body))
			}
		case "json":
			ctype("application/json")
			var got fidJSONDoc
			if err := json.Unmarshal(sn.body, &got); err != nil || !reflect.DeepEqual(got, *b.jv) {
				if !bodyLeft() {
					fail("body", "%s: JSON body of %+v arrived as %s (decodes to %+v, err %v)", tok, *b.jv, truncate(sn.body), got, err)
				}
			}
		case "xml":
			ctype("application/xml")
			var got fidXMLDoc
			if err := xml.Unmarshal(sn.body, &got); err != nil || !reflect.DeepEqual(got, *b.xv) {
				if !bodyLeft() {
					fail("body", "%s: XML body of %+v arrived as %s (decodes to %+v, err %v)", tok, *b.xv, truncate(sn.body), got, err)
				}
			}
		case "cbor":
			ctype("application/cbor")
			var got fidCBORDoc
			if err := client.C().CBORUnmarshal()(sn.body, &got); err != nil || !reflect.DeepEqual(got, *b.cv) {
				if !bodyLeft() {
					fail("body", "%s: CBOR body of %+v arrived as %s (decodes to %+v, err %v)", tok, *b.cv, truncate(sn.body), got, err)
				}
			}
		case "form":
			ctype("application/x-www-form-urlencoded")
			checkMulti(tok, "form", "body "+truncate(sn.body), parseQuery(string(sn.body)), []*fidMulti{b.form}, nil, own)
		case "multipart":
			ctype("multipart/form-data")
			if sn.mpErr != "" || sn.mpValues == nil {
				fail("file", "%s: the server could not parse the multipart body: %s (Content-Type %q, body %s)", tok, sn.mpErr, sn.ctype, truncate(sn.body))
				break
			}
			_, bnd, _ := strings.Cut(sn.ctype, "boundary=")
			bnd = strings.Trim(bnd, "\"")
			if b.boundary != "" {
				if bnd != b.boundary || !bytes.HasPrefix(sn.body, []byte("--"+b.boundary+"\r\n")) {
					fail("boundary", "%s: SetBoundary(%q), the request arrived with Content-Type %q and a body starting %.60q", tok, b.boundary, sn.ctype, sn.body)
				}
			} else {
				for _, o := range reqs {
					if o.body.boundary != "" && o.body.boundary == bnd {
						fail("leftover", "%s: no boundary configured, the request arrived with the boundary %q set on %s", tok, bnd, o.tag)
					}
				}
			}
			checkMulti(tok, "form", fmt.Sprintf("multipart fields %q", sn.mpValues), sn.mpValues, []*fidMulti{b.form}, nil, own)
			// files: each arrives once with its name, content and (if configured) field name
			used := make([]bool, len(sn.mpFiles))
			var missing []*fidFile
			for pass := 0; pass < 2; pass++ { // files with a configured field name pick first
				for _, f := range b.files {
					if (pass == 0) != (f.field != "") {
						continue
					}
					hit := -1
					for i, sf := range sn.mpFiles {
						if !used[i] && sf.name == f.name && sf.content == f.content && (f.field == "" || sf.field == f.field) {
							hit = i
							break
						}
					}
					if hit >= 0 {
						used[hit] = true
					} else {
						missing = append(missing, f)
					}
				}
			}
			show := func() string {
				var l []string
				for _, sf := range sn.mpFiles {
					l = append(l, fmt.Sprintf("{field=%q name=%q %d bytes %.30q}", sf.field, sf.name, len(sf.content), sf.content))
				}
				return strings.Join(l, " ")
			}
			for _, f := range missing {
				why := "did not arrive"
				for i, sf := range sn.mpFiles {
					switch {
					case used[i]:
					case sf.name == f.name && sf.content == f.content:
						why = fmt.Sprintf("arrived under field %q", sf.field)
					case sf.name == f.name:
						why = fmt.Sprintf("arrived with other content (%d bytes %.30q)", len(sf.content), sf.content)
					case sf.content == f.content && (f.field == "" || sf.field == f.field) && why == "did not arrive":
						why = fmt.Sprintf("arrived under the name %q", sf.name)
					}
				}
				fail("file", "%s: file %s %s; the server saw %s", tok, f.describe(), why, show())
			}
			for i, sf := range sn.mpFiles {
				if used[i] {
					continue
				}
				id, why := "file", "was not configured on this request or arrived more than once"
				if t := fidTag(sf.name); allTags[t] && !own[t] {
					id, why = "leftover", "was configured on "+t
				} else if t := fidTag(sf.content); allTags[t] && !own[t] {
					id, why = "leftover", "has the content configured on "+t
				} else if len(missing) == 0 {
					for _, o := range reqs {
						for _, f := range o.body.files {
							if o != rq && f.name == sf.name && f.content == sf.content {
								id, why = "leftover", "was configured on "+o.tag
							}
						}
					}
				}
				if len(missing) == 0 || id == "leftover" {
					fail(id, "%s: file {field=%q name=%q %d bytes} arrived, which %s; the server saw %s", tok, sf.field, sf.name, len(sf.content), why, show())
				}
			}
		}
	}
	for i, rq := range reqs {
		check("a", rq, outA[i])
		check("b", rq, outB[i])
	}

	// determinism: the same configuration built twice gives the same request
	render := func(sn *fidSeen, rq *fidReq) [][2]string {
		var hb strings.Builder
		for _, k := range sortedKeys(sn.hdr) {
			fmt.Fprintf(&hb, "%s=%q;", k, sn.hdr[k])
		}
		_, rest, _ := strings.Cut(strings.TrimPrefix(sn.path, "/"), "/")
		out := [][2]string{{"method", sn.method}, {"path", rest}, {"query", sn.query}, {"useragent", sn.ua}, {"referer", sn.referer}, {"cookie", sn.cookie}, {"header", hb.String()}}
		if rq.body.kind == "multipart" && rq.body.boundary == "" {
			var fb strings.Builder
			for _, k := range sortedKeys(sn.mpValues) {
				fmt.Fprintf(&fb, "%s=%q;", k, sn.mpValues[k])
			}
			for _, sf := range sn.mpFiles {
				fmt.Fprintf(&fb, "file %q %q %q;", sf.field, sf.name, sf.content)
			}
			ct, _, _ := strings.Cut(sn.ctype, "boundary=")
			return append(out, [2]string{"content-type", ct}, [2]string{"body", fb.String()})
		}
		return append(out, [2]string{"content-type", sn.ctype}, [2]string{"body", string(sn.body)})
	}
	sameParts := func(a, b, sep string) bool {
		x, y := strings.Split(a, sep), strings.Split(b, sep)
		sort.Strings(x)
		sort.Strings(y)
		return strings.Join(x, "\x00") == strings.Join(y, "\x00")
	}
	for i, rq := range reqs {
		sa, sb := seen["a"+strconv.Itoa(i)], seen["b"+strconv.Itoa(i)]
		if sa == nil || sb == nil || outA[i].err != nil || outB[i].err != nil || outA[i].stale || outB[i].stale {
			continue
		}
		cc := clients[rq.cli]
		ra, rb := render(sa, rq), render(sb, rq)
		for j := range ra {
			if ra[j][1] == rb[j][1] {
				continue
			}
			comp := ra[j][0]
			id := "deterministic"
			// the one way the pinned tree is known to differ: a setter that takes a map sends the entries in map order
			switch {
			case comp == "query" && (rq.q.mapSetter || cc.q.mapSetter) && sameParts(ra[j][1], rb[j][1], "&"):
				id = "deterministic.map-setter-order"
			case comp == "body" && rq.body.kind == "form" && rq.body.form.mapSetter && sameParts(ra[j][1], rb[j][1], "&"):
				id = "deterministic.map-setter-order"
			case comp == "body" && rq.body.kind == "multipart" && rq.body.form != nil && rq.body.form.mapSetter && sameParts("\r\n"+ra[j][1], "\r\n"+rb[j][1], "\r\n--"+rq.body.boundary):
				id = "deterministic.map-setter-order"
			}
			fail(id, "%s: the same configuration (%s; %s) built twice gave two different requests, %s differs:\n  %.600q\n  %.600q", rq.tag, cc.describe(), rq.describe(), comp, ra[j][1], rb[j][1])
		}
		for _, p := range ra {
			h.str(p[1])
		}
	}
	for i := range reqs {
		for _, o := range []*fidOutcome{outA[i], outB[i]} {
			h.str(fmt.Sprint(o.err != nil, o.elapsed))
		}
	}
	if g.needEsc {
		s.Count("probe_value_needed_escaping")
	}
	if nfiles > 0 {
		s.Count("probe_multipart_upload")
	}
	if nreq > 1 {
		s.Count("probe_history_on_one_client")
	}
	for i, rq := range reqs {
		if rq.pair {
			s.Count("probe_two_requests_held_at_once")
		}
		if rq.fault != "" || outA[i].err != nil {
			s.Count("probe_history_continues_after_failed_request")
		}
		if rq.fault == "resphook" && rq.conv() {
			s.Count("probe_response_hook_fails_shorthand_request")
		}
		if rq.cli == 1 {
			s.Count("probe_request_through_default_client")
		}
		if rq.conv() {
			s.Count("probe_request_configured_by_config_struct")
		}
		if rq.body.boundary != "" {
			s.Count("probe_fixed_multipart_boundary")
		}
	}
	info.StateHash = h.h
	info.Nontrivial = g.needEsc || nfiles > 0 || nreq > 1
	info.Sample = map[string]any{"config": cfgLine, "first_request": reqs[0].describe()}
}

func parseQuery(q string) map[string][]string {
	out := map[string][]string{}
	if q == "" {
		return out
	}
	for _, part := range strings.Split(q, "&") {
		k, v, _ := strings.Cut(part, "=")
		out[unesc(k)] = append(out[unesc(k)], unesc(v))
	}
	return out
}

func unesc(s string) string {
	v, err := url.QueryUnescape(s)
	if err != nil {
		return s
	}
	return v
}

// samePath: "" and "/" denote the same cookie path.
func samePath(a, b string) bool { return a == b || (len(a) <= 1 && len(b) <= 1) }
