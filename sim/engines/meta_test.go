package engines

import (
	"encoding/json"
	"os"
	"testing"

	"verif.local/sim/harness"
)

// TestMeta writes the static description of an engine for the evidence file.
func TestMeta(t *testing.T) {
	out := os.Getenv("VERIF_META")
	e := harness.Engines[os.Getenv("VERIF_ENGINE")]
	if out == "" || e == nil {
		t.Skip()
	}
	b, _ := json.Marshal(map[string]any{"property": e.Property, "level": e.Level, "rule": e.Rule, "components": e.Components, "assumptions": e.Assumptions})
	if err := os.WriteFile(out, b, 0o644); err != nil {
		t.Fatal(err)
	}
}
