package engines

import (
	"fmt"
	"strconv"
	"strings"
	"sync"
	"time"

	"github.com/gofiber/fiber/v3"
	"github.com/gofiber/fiber/v3/middleware/csrf"
	"github.com/gofiber/fiber/v3/middleware/session"
	"github.com/gofiber/fiber/v3/simexport"

	"verif.local/sim/harness"
	"verif.local/sim/simrt"
)

// C16 — CSRF middleware (DESIGN.md 3.8 / A.4): sequential request histories of
// 1-3 browsers against the real middleware, checked against a reference model
// of the live tokens and an independent origin / referer rule.

func init() {
	harness.Register(&harness.Engine{
		Name: "csrf", Property: "C16", Level: "exploration",
		Main:       csrfMain,
		MaxSimTime: 6 * time.Hour,
		Rule: "per run the tape draws backend (built-in memory storage / SimStorage with optional Get/Set/Delete faults / in-repo internal/storage/memory as external storage / session store, either behind the session middleware or handed to the csrf middleware alone (Config.Session without the session middleware: every token operation loads and saves the session itself); in the fault stratum the session store sits on a SimStorage with Get/Set error rates and/or one-shot faults aimed at the n-th Get or Set of a request), extractor (header, form urlencoded+multipart, query, param, cookie), " +
			"SingleUseToken, IdleTimeout, CookieSessionOnly, cookie name, key generator (counter based / default UUID), TrustedOrigins (exact, trailing slash, wildcard subdomain), proxy trust mode, route-level or app-level registration, clock phase, " +
			"1-3 browsers and 4-28 sequential steps: safe request, unsafe request (token: current/none/forged/other browser's/stale/mangled x cookie: natural/equal/absent/different x Origin and Referer from 10+ classes x http/https x Host), " +
			"DeleteToken route (GET/POST), cookie tampering, replay of the token of the last admitted unsafe request, time advances around the idle timeout; request Hosts with and without non-default ports and Origin/Referer naming the same host name with no / default / other port; " +
			"concurrent stratum (a quarter of the fault-free runs, storage backends): 2-3 browser tasks x 2-6 requests with preemption against a protected handler that yields and takes 0-1 s, including replays of a token whose request is inside the handler; " +
			"distinct = hash of (configuration, per step (kind, token class, cookie class, origin class, referer class, scheme, admitted?, first model reason)); " +
			"non-trivial = at least one unsafe request admitted and one rejected, or a fault fired; concurrent stratum: a replay was issued while its victim was inside the protected handler",
		Assumptions: []string{
			"within 2 s of the modelled expiry of a token both outcomes are accepted (storage TTLs run on the 1 s coarse clock)",
			"Origin 'null' is treated like an absent Origin header (DESIGN A.4); on https an absent Referer (with no Origin) must be rejected (docs: referer checking is always carried out for HTTPS)",
			"a token is 'issued' if the configured KeyGenerator returned it (runs with the default UUID generator: if a response cookie carried it)",
			"with the session backend the store consulted is the browser's session: a token of another session counts as not issued to that store",
			"completeness (a request the model admits is admitted; a safe request leaves a usable cookie) is demanded in fault-free runs only; after an injected Delete error the consumed/deleted state of the tokens of that request is unknown",
			"external storages get a private copy of the key (as a storage behind a wire serialises it); in a quarter of the fault-free header/cookie-extractor runs the string handed to Storage.Set is also kept and compared after every later request (oracle storage-key-aliases-request-buffer)",
			"session backend under storage faults: the model keeps, per session record, the set of tokens the record may hold: a record changes only through a successful Storage.Set of its key, and a request that reached a handler can only have left there the token the middleware settled on for it (none after a fault-free DeleteToken); a request that was rejected wrote nothing. The consumed state of an admitted single-use token is unknown only if no write of the session record succeeded in that request AND as many storage faults fired in it as the backend has independent write rounds for the consumption (session middleware in front: 1, the save at the end of the request; store alone: 2, the delete of the presented token and the write of its replacement are two separate load+save rounds, each defeated by one fault); if the first load of the session in a request fails (the one the validation needs) the request must be rejected",
			"session middleware in front + storage faults: a recover handler is registered before it (the session middleware panics when it cannot load the session); what the session middleware itself does to such a request (500 for a safe request whose session could not be loaded or saved) is not judged",
			"storage faults are injected on the SimStorage backends only (token storage or session storage); Origin/Referer values are those a browser can produce (no upper-case origins; an explicit default port only where it names a foreign origin); same origin = same scheme, host and port, an absent port being the scheme's default",
			"concurrent stratum: a single-use token is consumed from the moment the protected handler is entered for a request presenting it; only a request issued after that moment is judged, overlapping earlier ones are not; expiry, deletion and the session backend (two requests of one session race for the session record) are not judged there",
		},
		Components: map[string]string{
			"csrf middleware (handler, extractors, managers, origin checks)": "real (instrumented)",
			"session middleware + store (session backend runs)":              "real (instrumented); middleware registered or not: chosen per run",
			"session storage":                          "session's default in-repo memory storage (fault-free runs) or stub SimStorage with error injection behind an accounting wrapper (fault stratum)",
			"internal/memory storage + GC":             "real (instrumented), chosen per run",
			"external storage":                         "stub SimStorage (TTL on the coarse clock) with error injection, or the real in-repo internal/storage/memory, behind a key-copying wrapper; chosen per run",
			"utils.Timestamp updater":                  "stub daemon on the simulated clock, random phase",
			"browser cookie store":                     "stub harness.Browser (RFC 6265 subset, net/http response parser)",
			"fasthttp accept loop / worker pool / TLS": "stub (harness.Conn, scheme via forwarded headers); codecs real; in 15 % of the runs fasthttp's real connection loop (ServeConn) serves the requests over a simulated connection with tape-chosen segmentation and short reads",
		},
	})
}

type csrfTok struct {
	alias       string
	untilMax    time.Time // latest instant the server can consider it live (safety)
	untilMin    time.Time // earliest instant it can expire (completeness, fault-free runs)
	consumed    bool
	consumedUnk bool
	deleted     bool
	deletedUnk  bool
	note        string // how it got consumed / deleted (for messages)
}

type csrfOp struct {
	id, br     int
	kind       string // safe | unsafe | logout
	method     string
	https      bool   // scheme the server must see
	host       string // effective host the server must see
	origin     string
	originKind string
	referer    string
	refKind    string
	refPath    bool
	x          string // token presented through the extractor
	xKind      string
	cookie     string // value of the CSRF cookie sent
	cookieKind string
	// observed
	ran            bool
	ctxTok         string
	deletedOK      bool
	noHandler      bool
	status         int
	getF, setF, dF bool
	// session backend on a SimStorage (fault stratum): what the session storage saw during this request
	plan           string   // one-shot fault aimed at this request ("" none)
	sGetF, sSetF   int      // Get / Set calls made to fail
	sFirstGetF     bool     // the first storage call of the request was a Get that failed
	sWrote, sDropd []string // session records written (Set succeeded) / removed (Delete succeeded)
	// concurrent stratum
	dur           time.Duration // how long the protected handler takes
	issue, hstart uint64        // event stamps: request issued / protected handler entered
	ret           uint64        // response received
	victim        int           // replay: the request whose token is replayed (-1 none)
}

type csrfWild struct{ scheme, suffix string }

// csrfStore sits between the middleware and the configured fiber.Storage. The
// inner storage always gets a private copy of the key (as a storage behind a
// wire would serialise it), so its behaviour never depends on who owns the
// memory of the key string. With track=true the wrapper also keeps the string
// exactly as it was handed to Set, so that an oracle can tell whether that
// string changed afterwards, i.e. pointed into a reusable request buffer: an
// in-process storage that keeps its key (the in-repo internal/storage/memory
// does: s.db[key] = e) would lose or confuse the entry (Go map look-ups under a
// mutated key depend on the per-map hash seed, so the consequence itself cannot
// be replayed; the cause can).
type csrfStore struct {
	inner fiber.Storage
	track bool
	given map[string]string // private copy of the key at Set time -> the string as handed over
}

func (w *csrfStore) Get(key string) ([]byte, error) { return w.inner.Get(strings.Clone(key)) }

func (w *csrfStore) Set(key string, val []byte, exp time.Duration) error {
	k := strings.Clone(key)
	if w.track {
		w.given[k] = key
	}
	return w.inner.Set(k, val, exp)
}

func (w *csrfStore) Delete(key string) error { return w.inner.Delete(strings.Clone(key)) }
func (w *csrfStore) Reset() error            { return w.inner.Reset() }
func (w *csrfStore) Close() error            { return w.inner.Close() }

// csrfSessStore sits between the session store and its SimStorage (fault stratum).
// It accounts, per request, which calls were made to fail and which session
// records were written, and aims one-shot faults at the n-th Get or Set of a
// request. The fault stratum is sequential: one request at a time.
type csrfSessStore struct {
	inner              *harness.SimStorage
	rateGet, rateSet   int // permille, every call
	failGetN, failSetN int // one-shot: the n-th Get / Set of the current request fails (0 = none)
	calls, gets, sets  int
	getF, setF         int
	firstGetF          bool
	wrote, dropped     []string
}

// begin starts the accounting of a request.
func (w *csrfSessStore) begin(failGetN, failSetN int) {
	*w = csrfSessStore{inner: w.inner, rateGet: w.rateGet, rateSet: w.rateSet, failGetN: failGetN, failSetN: failSetN}
}

func (w *csrfSessStore) Get(key string) ([]byte, error) {
	w.calls++
	w.gets++
	w.inner.FailGet = w.rateGet
	if w.gets == w.failGetN {
		w.inner.FailGet = 1000
	}
	v, err := w.inner.Get(strings.Clone(key))
	w.inner.FailGet = w.rateGet
	if err != nil && w.calls == 1 {
		w.firstGetF = true
	}
	return v, err
}

func (w *csrfSessStore) Set(key string, val []byte, exp time.Duration) error {
	w.calls++
	w.sets++
	w.inner.FailSet = w.rateSet
	if w.sets == w.failSetN {
		w.inner.FailSet = 1000
	}
	k := strings.Clone(key)
	err := w.inner.Set(k, val, exp)
	w.inner.FailSet = w.rateSet
	if err == nil {
		w.wrote = append(w.wrote, k)
	}
	return err
}

func (w *csrfSessStore) Delete(key string) error {
	w.calls++
	k := strings.Clone(key)
	err := w.inner.Delete(k)
	if err == nil {
		w.dropped = append(w.dropped, k)
	}
	return err
}
func (w *csrfSessStore) Reset() error { return w.inner.Reset() }
func (w *csrfSessStore) Close() error { return w.inner.Close() }

// csrfOriginOf extracts scheme://authority from a header value the way RFC 6454
// defines the origin of a URL; ok=false if the value is not an absolute
// http(s)-like URL with a plausible authority.
func csrfOriginOf(v string) (scheme, authority string, ok bool) {
	l := strings.ToLower(v)
	i := strings.Index(l, "://")
	if i <= 0 {
		return "", "", false
	}
	scheme = l[:i]
	for _, ch := range scheme {
		if ch < 'a' || ch > 'z' {
			return "", "", false
		}
	}
	rest := l[i+3:]
	if j := strings.IndexAny(rest, "/?#"); j >= 0 {
		rest = rest[:j]
	}
	if j := strings.LastIndexByte(rest, '@'); j >= 0 {
		rest = rest[j+1:]
	}
	if rest == "" {
		return "", "", false
	}
	hostPart := rest
	if strings.HasPrefix(rest, "[") {
		j := strings.IndexByte(rest, ']')
		if j < 0 {
			return "", "", false
		}
		hostPart = rest[j+1:]
	}
	colons := 0
	for _, ch := range hostPart {
		switch {
		case ch >= 'a' && ch <= 'z', ch >= '0' && ch <= '9', ch == '.', ch == '-':
		case ch == ':':
			colons++
		default:
			return "", "", false
		}
	}
	if colons > 1 {
		return "", "", false
	}
	return scheme, rest, true
}

// csrfAllowed: the value names the request's own origin, a trusted origin or a
// subdomain of a trusted wildcard origin.
func csrfAllowed(v, reqScheme, reqHost string, exact []string, wild []csrfWild) (allowed, parsable bool) {
	sch, auth, ok := csrfOriginOf(v)
	if !ok {
		return false, false
	}
	if sch != "http" && sch != "https" {
		return false, true
	}
	// an origin is the triple scheme, host, port; an absent port is the scheme's default
	name, port := csrfSplitPort(auth, sch)
	if rn, rp := csrfSplitPort(strings.ToLower(reqHost), reqScheme); sch == reqScheme && name == rn && port == rp {
		return true, true
	}
	for _, e := range exact {
		es, ea, _ := csrfOriginOf(e)
		if en, ep := csrfSplitPort(ea, es); sch == es && name == en && port == ep {
			return true, true
		}
	}
	for _, w := range wild {
		if sch == w.scheme && port == csrfDefaultPort(sch) && strings.HasSuffix(name, "."+w.suffix) && len(name) > len(w.suffix)+1 {
			return true, true
		}
	}
	return false, true
}

func csrfDefaultPort(scheme string) string {
	if scheme == "https" {
		return "443"
	}
	return "80"
}

// csrfSplitPort splits host[:port]; an absent port reads as the scheme's default.
func csrfSplitPort(auth, scheme string) (name, port string) {
	name, port = auth, ""
	if i := strings.LastIndexByte(auth, ':'); i >= 0 && !strings.Contains(auth[i:], "]") {
		name, port = auth[:i], auth[i+1:]
	}
	if port == "" {
		port = csrfDefaultPort(scheme)
	}
	return name, port
}

func csrfHostname(h string) string {
	if i := strings.LastIndexByte(h, ':'); i >= 0 && !strings.Contains(h[i:], "]") {
		return h[:i]
	}
	return h
}

func csrfMain(s *simrt.Sim, info *harness.RunInfo) {
	if s.Chance(80) {
		csrfExpiryRace(s, info)
		return
	}
	harness.ChooseTransportNoPause(s, 150) // some runs go through fasthttp's real connection loop
	faults := s.Chance(500)
	info.Faults = faults
	// third stratum: concurrent browsers against a protected handler that takes time
	concurrent := !faults && s.Chance(250)
	backend := "memory"
	switch {
	case faults:
		backend = simrt.PickS(s, "sim", "session", "sim", "session")
	case concurrent:
		// (two requests of one session race for the session record whatever this middleware does: not judged)
		backend = simrt.PickS(s, "memory", "sim", "extmem")
	default:
		backend = simrt.PickS(s, "memory", "sim", "session", "extmem", "memory", "sim", "session")
	}
	// session backend: the session middleware in front of csrf (csrf finds the session in the
	// context, it is saved once when the request ends), or the store alone (csrf loads and
	// saves the session itself for every token operation; Save() issues the session cookie)
	sessMode := "-"
	if backend == "session" {
		sessMode = simrt.PickS(s, "middleware", "store")
	}
	extractor := simrt.PickS(s, "header", "form", "query", "param", "header", "form", "header", "cookie")
	singleUse := s.Chance(400)
	if concurrent {
		singleUse = !s.Chance(250)
	}
	idle := simrt.PickS(s, 20*time.Second, 3*time.Second, 6*time.Second, 90*time.Second, 20*time.Second, 6*time.Second, 0, 500*time.Millisecond)
	if idle > 0 && idle < time.Second && backend == "session" {
		idle = 3 * time.Second // sub-second lifetimes only with the storage backends (the session record has its own timeout)
	}
	sessionOnly := s.Chance(300)
	cookieName := simrt.PickS(s, "csrf_", "__Host-csrf_", "xsrf")
	customGen := !s.Chance(150) || backend == "sim" || concurrent || faults // SimStorage logs its keys: random tokens would make the event log irreproducible
	exactMode := s.Draw(4)
	wildcard := s.Chance(500)
	proxyMode := simrt.PickS(s, 0, 0, 0, 1, 1, 2) // 0 TrustProxy off, 1 on + client is a trusted proxy, 2 on + client not trusted
	routeLevel := extractor == "param" || s.Chance(250)
	// header and cookie values live in buffers owned by the connection's request object
	// (created per run): only there is the content of a retained key string reproducible
	trackKeys := !faults && !concurrent && (backend == "sim" || backend == "extmem") && (extractor == "header" || extractor == "cookie") && s.Chance(250)
	hostility := simrt.PickS(s, 300, 100, 600, 900) // permille of unsafe requests with a hostile token / origin part
	nb := s.Range(1, 3)
	nsteps := s.Range(4, 28)
	mainHost := simrt.PickS(s, "example.com", "app.example.com", "example.com:8080", "shop.test", "example.com:8443", "app.example.com:3000", "example.com:8080")
	phase := s.Draw(1000)
	failGet, failSet, failDel := 0, 0, 0
	oneShot := 0 // session backend: permille of the requests with a fault aimed at their n-th Get / Set
	if faults && backend == "session" {
		// (the session paths of the middleware never call Storage.Delete)
		mode := s.Draw(3) // 0 error rates, 1 one-shot faults only, 2 both
		if mode != 1 {
			failGet = simrt.PickS(s, 0, 100, 300)
			failSet = simrt.PickS(s, 0, 100, 300)
			if failGet+failSet == 0 {
				failSet = 150
			}
		}
		if mode != 0 {
			oneShot = simrt.PickS(s, 300, 150, 600)
		}
	} else if faults {
		failGet = simrt.PickS(s, 0, 100, 300)
		failSet = simrt.PickS(s, 0, 100, 300)
		failDel = simrt.PickS(s, 0, 150, 400)
		if failGet+failSet+failDel == 0 {
			failGet = 150
		}
	}

	simrt.Sleep(time.Duration(phase) * time.Millisecond)
	harness.StartCoarseClock(s, 0)
	simrt.Sleep(time.Duration(s.Draw(300)) * time.Millisecond)

	idleEff := idle
	if idleEff == 0 {
		idleEff = 30 * time.Minute // documented default
	}
	var trusted []string      // as configured
	var trustedExact []string // normalised, for the model
	var wild []csrfWild
	switch exactMode {
	case 1:
		trusted = []string{"https://trusted.example.org"}
		trustedExact = []string{"https://trusted.example.org"}
	case 2:
		trusted = []string{"https://trusted.example.org/", "http://partner.test:8080"}
		trustedExact = []string{"https://trusted.example.org", "http://partner.test:8080"}
	case 3:
		trusted = []string{" https://Trusted.Example.org "}
		trustedExact = []string{"https://trusted.example.org"}
	}
	if wildcard {
		trusted = append(trusted, "https://*.example.com")
		wild = append(wild, csrfWild{"https", "example.com"})
	}

	// ---- model ----
	tokens := map[string]*csrfTok{}
	var seen []string // every token value ever seen, in order of appearance
	alias := func(t string) string {
		if t == "" {
			return "-"
		}
		if k := tokens[t]; k != nil {
			return k.alias
		}
		return "?" + strconv.Itoa(len(t))
	}
	learn := func(t string) *csrfTok {
		k := tokens[t]
		if k == nil {
			k = &csrfTok{alias: "T" + strconv.Itoa(len(seen)+1)}
			tokens[t] = k
			seen = append(seen, t)
		}
		return k
	}
	// session backend: session record (its id is the storage key and the value of the session
	// cookie) -> the tokens it may hold; exactly one or none except after storage faults
	sessMay := map[string]map[string]bool{}
	lastAdmitted := "" // token of the last unsafe request that reached the handler
	var cur *csrfOp
	var ops []*csrfOp

	// ---- system under test ----
	cfg := csrf.Config{
		IdleTimeout:       idle,
		SingleUseToken:    singleUse,
		CookieSessionOnly: sessionOnly,
		TrustedOrigins:    trusted,
	}
	headerName := "X-Csrf-Token"
	switch extractor {
	case "header":
		if s.Chance(300) {
			headerName = "X-Xsrf-Token"
			cfg.KeyLookup = "header:" + headerName
		}
	case "form":
		cfg.KeyLookup = "form:_csrf"
	case "query":
		cfg.KeyLookup = "query:_csrf"
	case "param":
		cfg.KeyLookup = "param:csrf"
	case "cookie":
		cfg.KeyLookup = "cookie:" + cookieName
	}
	// an explicitly configured Extractor takes precedence over KeyLookup, which may then be unset,
	// agree, or name a source nobody reads
	explicitExtractor := s.Chance(300)
	if explicitExtractor {
		switch extractor {
		case "header":
			cfg.Extractor = csrf.FromHeader(headerName)
		case "form":
			cfg.Extractor = csrf.FromForm("_csrf")
		case "query":
			cfg.Extractor = csrf.FromQuery("_csrf")
		case "param":
			cfg.Extractor = csrf.FromParam("csrf")
		case "cookie":
			cfg.Extractor = csrf.FromCookie(cookieName)
		}
		switch s.Draw(3) {
		case 1:
			cfg.KeyLookup = ""
		case 2:
			cfg.KeyLookup = simrt.PickS(s, "cookie:"+cookieName, "header:X-Other", "query:other")
		}
		s.Count("probe_explicit_extractor")
	}
	cfg.CookieName = cookieName
	ngen := 0
	if customGen {
		cfg.KeyGenerator = func() string {
			ngen++
			t := fmt.Sprintf("tok%03d-%04x%04x", ngen, ngen*7919%65536, ngen*104729%65536)
			k := learn(t)
			now := time.Now()
			k.untilMax = now.Add(idleEff)
			s.Logf("  keygen -> %s", k.alias)
			return t
		}
	}
	var sim *harness.SimStorage
	var ext *csrfStore
	var sess *csrfSessStore // session backend in the fault stratum
	appCfg := fiber.Config{}
	switch proxyMode {
	case 1:
		appCfg.TrustProxy = true
		appCfg.TrustProxyConfig = fiber.TrustProxyConfig{Proxies: []string{"10.0.0.0/8"}}
	case 2:
		appCfg.TrustProxy = true
		appCfg.TrustProxyConfig = fiber.TrustProxyConfig{Proxies: []string{"192.0.2.1"}}
	}
	app := fiber.New(appCfg)
	switch backend {
	case "sim":
		sim = harness.NewSimStorage(s, "csrf-store")
		sim.FailGet, sim.FailSet, sim.FailDel = failGet, failSet, failDel
		sim.OnFault = func(op string) {
			if cur == nil {
				return
			}
			switch op {
			case "get":
				cur.getF = true
			case "set":
				cur.setF = true
			case "del":
				cur.dF = true
			}
		}
		ext = &csrfStore{inner: sim, track: trackKeys, given: map[string]string{}}
		cfg.Storage = ext
	case "extmem":
		ext = &csrfStore{inner: simexport.NewMemoryStorage(), track: trackKeys, given: map[string]string{}}
		cfg.Storage = ext
	case "session":
		nsess := 0
		scfg := session.Config{
			IdleTimeout: 24 * time.Hour,
			KeyGenerator: func() string {
				nsess++
				return fmt.Sprintf("sess-%03d", nsess)
			},
		}
		if faults {
			sst := harness.NewSimStorage(s, "session-store")
			sst.HideSizes = true
			sess = &csrfSessStore{inner: sst, rateGet: failGet, rateSet: failSet}
			sst.OnFault = func(op string) {
				switch op {
				case "get":
					sess.getF++
				case "set":
					sess.setF++
				}
			}
			scfg.Storage = sess
		}
		if sessMode == "store" {
			cfg.Session = session.NewStore(scfg)
			s.Count("probe_session_store_without_middleware")
		} else {
			if faults {
				// the session middleware panics when it cannot load the session
				app.Use(func(c fiber.Ctx) (err error) {
					defer func() {
						if r := recover(); r != nil {
							s.Count("probe_session_middleware_panic_recovered")
							err = fiber.ErrInternalServerError
						}
					}()
					return c.Next()
				})
			}
			sh, store := session.NewWithStore(scfg)
			app.Use(sh)
			cfg.Session = store
		}
	}
	if concurrent && idle != 90*time.Second {
		idle, idleEff = 20*time.Second, 20*time.Second // expiry plays no part in the concurrent histories
	}
	cfg.IdleTimeout = idle
	cfgLine := fmt.Sprintf("faults=%v(get=%d set=%d del=%d oneshot=%d) concurrent=%v backend=%s/%s extractor=%s header=%s singleUse=%v idle=%v sessionOnly=%v cookie=%s customGen=%v trusted=%q proxyMode=%d routeLevel=%v trackKeys=%v hostility=%d browsers=%d steps=%d host=%s phase=%d explicitExtractor=%v keyLookup=%q",
		faults, failGet, failSet, failDel, oneShot, concurrent, backend, sessMode, extractor, headerName, singleUse, idle, sessionOnly, cookieName, customGen, trusted, proxyMode, routeLevel, trackKeys, hostility, nb, nsteps, mainHost, phase, explicitExtractor, cfg.KeyLookup)
	s.Logf("cfg %s", cfgLine)

	mw := csrf.New(cfg)
	page := func(c fiber.Ctx) error {
		op := ops[atoi(c.Get("X-Op"))]
		op.ran = true
		op.hstart = s.Stamp()
		op.ctxTok = strings.Clone(csrf.TokenFromContext(c))
		if concurrent {
			s.Logf("op%d protected handler entered (takes %v)", op.id, op.dur)
			simrt.Yield(600)
			if op.dur > 0 {
				simrt.Sleep(op.dur)
			}
			simrt.Yield(601)
		}
		return c.SendString("ok")
	}
	logout := func(c fiber.Ctx) error {
		op := ops[atoi(c.Get("X-Op"))]
		op.ran = true
		op.ctxTok = strings.Clone(csrf.TokenFromContext(c))
		h := csrf.HandlerFromContext(c)
		if h == nil {
			op.noHandler = true
			return c.SendStatus(500)
		}
		if err := h.DeleteToken(c); err != nil {
			return err
		}
		op.deletedOK = true
		return c.SendString("bye")
	}
	if routeLevel {
		app.All("/page/:csrf?", mw, page)
		app.All("/do/:csrf?", mw, page)
		app.All("/logout/:csrf?", mw, logout)
	} else {
		app.Use(mw)
		app.All("/page", page)
		app.All("/do", page)
		app.All("/logout", logout)
	}
	app.Handler()

	browsers := make([]*harness.Browser, nb)
	conns := make([]*harness.Conn, nb)
	for i := range browsers {
		browsers[i] = harness.NewBrowser("b" + strconv.Itoa(i))
		conns[i] = harness.NewConn(app, "10.0.0."+strconv.Itoa(i+1))
	}
	nforged := 0
	forged := func() string {
		nforged++
		t := fmt.Sprintf("forged%03d-0000", nforged)
		return t
	}
	curCookie := func(b *harness.Browser) string {
		v, _ := b.Get(cookieName)
		return v
	}
	cookieHeader := func(b *harness.Browser, override bool, val string) string {
		var parts []string
		for _, p := range strings.Split(b.Header(), "; ") {
			if p == "" || strings.HasPrefix(p, cookieName+"=") {
				continue
			}
			parts = append(parts, p)
		}
		v, ok := b.Get(cookieName)
		if override {
			v, ok = val, val != ""
		}
		if ok {
			parts = append(parts, cookieName+"="+v)
		}
		return strings.Join(parts, "; ")
	}
	otherHosts := []string{"example.com", "app.example.com", "example.com:8080", "shop.test", "example.com:8443", "app.example.com:3000"}
	// originValue builds a header value of the given class for a request seen as scheme://host.
	originValue := func(kind int, scheme, host string) (string, string) {
		other := map[string]string{"http": "https", "https": "http"}[scheme]
		switch kind {
		case 1:
			return scheme + "://" + host, "same"
		case 2:
			if len(trustedExact) > 0 {
				return trustedExact[s.Draw(len(trustedExact))], "trusted"
			}
			return "https://trusted.example.org", "trusted"
		case 3:
			return "https://" + simrt.PickS(s, "a", "a.b", "shop", "x-1") + ".example.com", "wild-sub"
		case 4:
			if s.Chance(300) {
				// the request's own (or a trusted) origin as the userinfo of another host of the same length
				victim := scheme + "://" + host
				if len(trustedExact) > 0 && s.Chance(500) {
					victim = trustedExact[s.Draw(len(trustedExact))]
				}
				if i := strings.Index(victim, "://"); i > 0 && len(victim)-i-3 > 4 {
					n := len(victim) - i - 3
					return victim + "@" + strings.Repeat("e", n-3) + ".io", "lookalike"
				}
			}
			return simrt.PickS(s, "https://evilexample.com", "https://example.com.evil.io", "https://evil-example.com", "https://trusted.example.org.evil.io", "https://example.com@evil.io"), "lookalike"
		case 5:
			return other + "://" + host, "other-scheme"
		case 6:
			return scheme + "://" + csrfHostname(host) + ":9443", "other-port"
		case 7:
			return "null", "null"
		case 8:
			return simrt.PickS(s, "https://%zz", "://example.com", "https://[::1", "http//example.com", "example.com", "https://exa mple.com"), "unparsable"
		case 9:
			return "http://a.example.com", "wild-other-scheme"
		case 10:
			return "https://" + simrt.PickS(s, "other.test", "evil.io", "example.org"), "foreign"
		case 12, 13:
			// the request's own host name without its (non-default) port / with the scheme's default port
			name, port := csrfSplitPort(host, scheme)
			if port == csrfDefaultPort(scheme) {
				return scheme + "://" + name + ":9443", "other-port"
			}
			if kind == 12 {
				return scheme + "://" + name, "same-name-no-port"
			}
			v := scheme + "://" + name + ":" + csrfDefaultPort(scheme)
			if ok, _ := csrfAllowed(v, scheme, host, trustedExact, wild); ok {
				// a trusted origin spelled with its default port: whether that spelling must be
				// recognised is not the question here (browsers never send it)
				return scheme + "://" + name, "same-name-no-port"
			}
			return v, "same-name-default-port"
		}
		return "", "absent"
	}

	// attach puts the token where the configured extractor looks for it.
	attach := func(path string, hdr [][2]string, x string, multipart bool) (string, [][2]string, []byte) {
		var body []byte
		switch extractor {
		case "header":
			hdr = append(hdr, [2]string{headerName, x})
		case "query":
			path += "?a=1&_csrf=" + x
		case "param":
			path += "/" + x
		case "form":
			if multipart {
				bd := "XbOuNdArY7"
				hdr = append(hdr, [2]string{"Content-Type", "multipart/form-data; boundary=" + bd})
				body = []byte("--" + bd + "\r\nContent-Disposition: form-data; name=\"msg\"\r\n\r\nhello\r\n--" + bd + "\r\nContent-Disposition: form-data; name=\"_csrf\"\r\n\r\n" + x + "\r\n--" + bd + "--\r\n")
			} else {
				hdr = append(hdr, [2]string{"Content-Type", "application/x-www-form-urlencoded"})
				body = []byte("msg=hello&_csrf=" + x)
			}
		}
		return path, hdr, body
	}

	admitted, rejected := 0, 0
	h := newHasher().str(cfgLine)
	if concurrent {
		csrfConcurrent(s, info, &csrfConc{
			cfgLine: cfgLine, singleUse: singleUse, extractor: extractor, cookieName: cookieName, host: mainHost, nb: max(2, nb),
			app: app, ops: &ops, tokens: tokens, alias: alias, forged: forged, attach: attach,
			exact: trustedExact, wild: wild,
		})
		return
	}
	longSleeps := 0
	for step := 0; step < nsteps && !s.Failed(); step++ {
		bi := s.Draw(nb)
		b, conn := browsers[bi], conns[bi]
		// time advance
		think := simrt.PickS(s, 0, 0, 300*time.Millisecond, time.Second, idleEff/2, idleEff-2500*time.Millisecond, idleEff-500*time.Millisecond, idleEff+500*time.Millisecond, idleEff+2500*time.Millisecond, 0, 0)
		if think > 2*time.Minute {
			longSleeps++
			if longSleeps > 3 {
				think = time.Second
			}
		}
		if think > 0 {
			simrt.Sleep(think)
			s.Logf("step%d sleep %v -> t=%s", step, think, time.Now().Format("15:04:05.000"))
		}
		k := s.Draw(20)
		if k >= 6 && k < 18 && curCookie(b) == "" && !s.Chance(250) {
			k = 0 // a browser without a token cookie normally loads a page first
		}
		if k >= 18 {
			// tamper with the browser's stored cookie
			var v, what string
			switch s.Draw(3) {
			case 0:
				v, what = forged(), "forged"
			case 1:
				v, what = curCookie(browsers[s.Draw(nb)]), "other-browser"
			default:
				if len(seen) > 0 {
					v, what = seen[s.Draw(len(seen))], "stale"
				} else {
					v, what = forged(), "forged"
				}
			}
			if v != "" {
				b.Set(cookieName, v)
				s.Logf("step%d b%d tamper: cookie := %s (%s)", step, bi, alias(v), what)
			}
			h.str("tamper").str(what)
			continue
		}
		op := &csrfOp{id: len(ops), br: bi, kind: "safe", method: "GET", host: mainHost}
		ops = append(ops, op)
		path := "/page"
		switch {
		case k < 6:
			op.method = simrt.PickS(s, "GET", "GET", "GET", "HEAD", "OPTIONS", "TRACE")
		case k < 16:
			op.kind = "unsafe"
			op.method = simrt.PickS(s, "POST", "POST", "PUT", "PATCH", "DELETE")
			path = "/do"
		default:
			op.kind = "logout"
			op.method = simrt.PickS(s, "GET", "POST")
			path = "/logout"
		}
		if extractor == "form" && op.method == "DELETE" {
			op.method = "POST"
		}
		unsafe := op.method != "GET" && op.method != "HEAD" && op.method != "OPTIONS" && op.method != "TRACE"
		// scheme and host as seen by the server
		hostHdr := mainHost
		if s.Chance(150) {
			hostHdr = otherHosts[s.Draw(len(otherHosts))]
		}
		op.host = hostHdr
		var hdr [][2]string
		hdr = append(hdr, [2]string{"X-Op", strconv.Itoa(op.id)})
		wantHTTPS := s.Chance(500)
		if wantHTTPS {
			switch s.Draw(4) {
			case 0, 1:
				hdr = append(hdr, [2]string{"X-Forwarded-Proto", "https"})
			case 2:
				hdr = append(hdr, [2]string{"X-Forwarded-Ssl", "on"})
			default:
				hdr = append(hdr, [2]string{"X-Url-Scheme", "https"})
			}
			op.https = proxyMode != 2
		}
		if s.Chance(80) {
			fh := "public.example.net"
			hdr = append(hdr, [2]string{"X-Forwarded-Host", fh})
			if proxyMode != 2 {
				op.host = fh
			}
		}
		scheme := "http"
		if op.https {
			scheme = "https"
		}
		// Origin / Referer
		okind, rkind := 0, 0
		if unsafe || s.Chance(200) {
			okind = simrt.PickS(s, 0, 1, 0)
			rkind = simrt.PickS(s, 1, 1, 0)
			if s.Chance(hostility) {
				okind = simrt.PickS(s, 0, 1, 2, 3, 4, 5, 6, 7, 8, 9, 10, 7, 0, 2, 3, 12, 13, 12)
			}
			if s.Chance(hostility) {
				rkind = simrt.PickS(s, 0, 1, 2, 3, 4, 5, 6, 8, 9, 10, 11, 2, 3, 11, 12, 13, 12)
			}
		}
		op.origin, op.originKind = originValue(okind, scheme, op.host)
		if rkind == 11 {
			op.referer = simrt.PickS(s, "https://evil.io/a.example.com", "https://evil.io/?next=.example.com", "https://evil.io/x#.example.com", "https://evil.io/https://trusted.example.org")
			op.refKind, op.refPath = "evil-path", true
		} else {
			op.referer, op.refKind = originValue(rkind, scheme, op.host)
			if op.referer != "" && op.refKind != "unparsable" {
				suffix := simrt.PickS(s, "/", "", "/page?x=1", "/a/b")
				op.referer += suffix
				op.refPath = suffix != ""
			}
		}
		if op.origin != "" {
			hdr = append(hdr, [2]string{"Origin", op.origin})
		}
		if op.referer != "" {
			hdr = append(hdr, [2]string{"Referer", op.referer})
		}
		// token and cookie
		own := curCookie(b)
		op.x, op.xKind, op.cookie, op.cookieKind = own, "current", own, "natural"
		override := false
		if unsafe && s.Chance(hostility) {
			switch s.Draw(16) {
			case 14, 15:
				// replay the token of the last unsafe request that reached the handler
				if lastAdmitted != "" {
					op.x, op.xKind = lastAdmitted, "replay"
					op.cookie, op.cookieKind, override = op.x, "equal", true
				}
			case 0, 1, 2, 3, 4:
				if len(seen) > 0 && s.Chance(500) {
					op.x, op.xKind = seen[len(seen)-1-s.Draw(min(3, len(seen)))], "stale"
					op.cookie, op.cookieKind, override = op.x, "equal", true
				}
			case 5:
				op.x, op.xKind = "", "none"
			case 6:
				op.x, op.xKind = forged(), "forged"
				op.cookie, op.cookieKind, override = op.x, "equal", true
			case 7:
				op.x, op.xKind = forged(), "forged"
			case 8:
				op.x, op.xKind = curCookie(browsers[s.Draw(nb)]), "other-browser"
				op.cookie, op.cookieKind, override = op.x, "equal", true
			case 9:
				op.x, op.xKind = curCookie(browsers[s.Draw(nb)]), "other-browser"
			case 10, 11:
				if len(seen) > 0 {
					op.x, op.xKind = seen[s.Draw(len(seen))], "stale"
					op.cookie, op.cookieKind, override = op.x, "equal", true
				}
			case 12:
				if s.Chance(500) {
					op.cookie, op.cookieKind, override = "", "absent", true
				} else {
					op.cookie, op.cookieKind, override = forged(), "different", true
				}
			case 13:
				if own != "" {
					switch s.Draw(3) {
					case 0:
						op.x = own[:len(own)-1]
					case 1:
						op.x = own + "0"
					default:
						op.x = strings.ToUpper(own)
					}
					op.xKind = "mangled"
					op.cookie, op.cookieKind, override = op.x, "equal", true
				}
			}
		}
		if unsafe && extractor == "cookie" {
			op.x = op.cookie
		}
		if ch := cookieHeader(b, override, op.cookie); ch != "" {
			hdr = append(hdr, [2]string{"Cookie", ch})
		}
		var body []byte
		shown := path // without the token (tokens of the default generator are random: never log them)
		if unsafe && op.x != "" {
			path, hdr, body = attach(path, hdr, op.x, extractor == "form" && s.Chance(250))
		}
		sidBefore, _ := b.Get("session_id")
		if sess != nil {
			failGetN, failSetN := 0, 0
			if oneShot > 0 && s.Chance(oneShot) {
				n := s.Range(1, 3)
				if s.Chance(500) {
					failGetN, op.plan = n, "get#"+strconv.Itoa(n)
				} else {
					failSetN, op.plan = n, "set#"+strconv.Itoa(n)
				}
			}
			sess.begin(failGetN, failSetN)
		}
		cur = op
		now := time.Now()
		s.Logf("step%d op%d b%d %s %s %s://%s token=%s(%s) cookie=%s(%s) origin=%q(%s) referer=%q(%s) t=%s", step, op.id, bi, op.kind, op.method, scheme, op.host,
			alias(op.x), op.xKind, alias(op.cookie), op.cookieKind, op.origin, op.originKind, op.referer, op.refKind, now.Format("15:04:05.000"))
		resp := conn.Do(harness.Req{Method: op.method, Path: path, Host: hostHdr, Headers: hdr, Body: body}.Bytes())
		cur = nil
		op.status = resp.Status
		if sess != nil {
			op.sGetF, op.sSetF, op.sFirstGetF, op.sWrote, op.sDropd = sess.getF, sess.setF, sess.firstGetF, sess.wrote, sess.dropped
			op.getF, op.setF = op.sGetF > 0, op.sSetF > 0
		}
		hr, err := b.Apply(resp, op.method)
		if err != nil {
			s.Fail("C16.response-unparsable", "op%d %s %s: a strict client cannot parse the response: %v", op.id, op.method, shown, err)
			break
		}
		respTok, respCookie := "", false
		for _, ck := range hr.Cookies() {
			if ck.Name == cookieName {
				respCookie = true
				respTok = ck.Value
				if ck.MaxAge < 0 || (!ck.Expires.IsZero() && !ck.Expires.After(now)) {
					respTok = ""
				}
			}
		}
		sidAfter, _ := b.Get("session_id")
		if !customGen && respTok != "" && tokens[respTok] == nil {
			learn(respTok).untilMax = now.Add(idleEff)
		}
		s.Logf("op%d -> status=%d ran=%v set-cookie=%v:%s ctx=%s faults(get=%v set=%v del=%v)", op.id, op.status, op.ran, respCookie, alias(respTok), alias(op.ctxTok), op.getF, op.setF, op.dF)
		if sess != nil {
			s.Logf("op%d session %s -> %s; session storage: aimed fault %q, failed get=%d set=%d (first load failed=%v), records written %v", op.id, sidBefore, sidAfter, op.plan, op.sGetF, op.sSetF, op.sFirstGetF, op.sWrote)
		}

		// ---- model verdict for this request ----
		var deny []string // definitive reasons why the request must not reach the handler
		undecided := false
		if unsafe {
			// origin rule
			oAbsent := op.origin == "" || strings.ToLower(op.origin) == "null"
			if !oAbsent {
				if ok, parsable := csrfAllowed(op.origin, scheme, op.host, trustedExact, wild); !ok {
					if parsable {
						deny = append(deny, "origin-mismatch")
					} else {
						deny = append(deny, "origin-invalid")
					}
				}
			} else if op.https {
				if op.referer == "" {
					deny = append(deny, "https-no-referer")
				} else if ok, parsable := csrfAllowed(op.referer, scheme, op.host, trustedExact, wild); !ok {
					switch {
					case !parsable:
						deny = append(deny, "referer-invalid")
					case op.refKind == "evil-path":
						deny = append(deny, "referer-evil-path")
					default:
						deny = append(deny, "referer-mismatch")
					}
				}
			}
			tk := tokens[op.x]
			switch {
			case op.x == "":
				deny = append(deny, "no-token")
			case extractor != "cookie" && op.x != op.cookie:
				deny = append(deny, "cookie-mismatch")
			}
			if op.x != "" {
				if tk == nil {
					deny = append(deny, "unissued")
				} else {
					if now.After(tk.untilMax.Add(2 * time.Second)) {
						deny = append(deny, "expired")
					} else if !now.Before(tk.untilMin.Add(-2 * time.Second)) {
						undecided = true
					}
					if tk.deleted {
						if tk.deletedUnk {
							undecided = true
						} else {
							deny = append(deny, "deleted")
						}
					}
					if singleUse && tk.consumed {
						if tk.consumedUnk {
							undecided = true
						} else {
							deny = append(deny, "consumed")
						}
					}
					if backend == "session" && (sidBefore == "" || !sessMay[sidBefore][op.x]) {
						deny = append(deny, "other-session")
					}
				}
			}
			// storage backend: the only Get of a request is the look-up of the presented token;
			// session backend: the first load of the session is the one the validation depends on
			// (later loads belong to the writes that follow an accepted token)
			if (backend != "session" && op.getF) || op.sFirstGetF {
				deny = append(deny, "store-get-failed")
			}
			// safety (always)
			if op.ran && len(deny) > 0 {
				id := map[string]string{
					"origin-mismatch":   "C16.origin-mismatch-admitted",
					"origin-invalid":    "C16.origin-invalid-admitted",
					"https-no-referer":  "C16.https-no-referer-admitted",
					"referer-invalid":   "C16.referer-invalid-admitted",
					"referer-mismatch":  "C16.referer-mismatch-admitted",
					"referer-evil-path": "C16.referer-path-matches-wildcard-admitted",
					"no-token":          "C16.no-token-admitted",
					"cookie-mismatch":   "C16.cookie-mismatch-admitted",
					"unissued":          "C16.unissued-token-admitted",
					"expired":           "C16.expired-token-admitted",
					"deleted":           "C16.deleted-token-admitted",
					"consumed":          "C16.consumed-token-admitted",
					"other-session":     "C16.session-foreign-token-admitted",
					"store-get-failed":  "C16.store-get-failed-admitted",
				}[deny[0]]
				extra := ""
				if tk != nil {
					extra = fmt.Sprintf("; token %s: live until %s, deleted=%v consumed=%v%s", tk.alias, tk.untilMax.Format("15:04:05.000"), tk.deleted, tk.consumed, tk.note)
				}
				if backend == "session" {
					var may []string
					for _, t := range seen {
						if sessMay[sidBefore][t] {
							may = append(may, alias(t))
						}
					}
					extra += fmt.Sprintf("; session backend (%s), session %q may hold %v", sessMode, sidBefore, may)
					if sess != nil {
						extra += fmt.Sprintf("; session storage faults in this request: get=%d set=%d, first load failed=%v", op.sGetF, op.sSetF, op.sFirstGetF)
					}
				}
				s.Fail(id, "op%d (b%d %s %s://%s%s at %s) reached the protected handler although the model rejects it: %s [token %s(%s), cookie %s(%s), Origin %q, Referer %q, trusted %q]%s",
					op.id, bi, op.method, scheme, op.host, shown, now.Format("15:04:05.000"), strings.Join(deny, ","), alias(op.x), op.xKind, alias(op.cookie), op.cookieKind, op.origin, op.referer, trusted, extra)
			}
			// completeness (fault-free stratum)
			if !faults && len(deny) == 0 && !undecided {
				if !op.ran {
					id := "C16.valid-request-rejected"
					if op.https && oAbsent && op.refPath && (op.refKind == "trusted" || op.refKind == "wild-sub") {
						id = "C16.trusted-referer-with-path-rejected"
					}
					s.Fail(id, "op%d (b%d %s %s://%s%s at %s) was rejected with status %d although the model admits it: token %s(%s) issued, live until %s, equals the cookie; Origin %q(%s), Referer %q(%s), trusted %q",
						op.id, bi, op.method, scheme, op.host, shown, now.Format("15:04:05.000"), op.status, alias(op.x), op.xKind, tk.untilMin.Format("15:04:05.000"), op.origin, op.originKind, op.referer, op.refKind, trusted)
				} else if op.kind == "unsafe" && op.status != 200 {
					s.Fail("C16.admitted-status", "op%d ran the protected handler (which answers 200) but the client got %d", op.id, op.status)
				}
			}
			if op.ran {
				admitted++
			} else {
				rejected++
			}
			switch {
			case len(deny) > 0:
				s.Count("probe_model_rejects_" + deny[0])
			case undecided:
				s.Count("probe_model_undecided_expiry_band_or_failed_delete")
			default:
				s.Count("probe_model_admits")
			}
		} else {
			// safe methods always pass (a session middleware in front that could not load or
			// save its session answers 500 by itself: not this middleware's doing)
			sessMwFault := sess != nil && sessMode == "middleware" && op.sGetF+op.sSetF > 0
			if sessMwFault {
				s.Count("probe_safe_request_failed_by_session_middleware")
			} else if !op.ran || (op.kind == "safe" && op.status != 200) {
				s.Fail("C16.safe-blocked", "op%d (b%d %s %s://%s%s, Origin %q, cookie %s) is a safe request but ran=%v status=%d", op.id, bi, op.method, scheme, op.host, shown, op.origin, alias(op.cookie), op.ran, op.status)
			}
			// (an idle timeout below one second cannot be expressed in a cookie's whole-second Expires /
			// Max-Age: the cookie may be dead on arrival; not judged)
			if op.kind == "safe" && !faults && op.ran && (idle == 0 || idle >= time.Second) {
				if respTok == "" {
					s.Fail("C16.safe-no-token-cookie", "op%d (b%d %s %s) left no CSRF cookie (Set-Cookie for %s present=%v)", op.id, bi, op.method, shown, cookieName, respCookie)
				} else if v := curCookie(b); v != respTok {
					s.Fail("C16.safe-no-token-cookie", "op%d (b%d %s %s): the browser does not hold the token cookie the response carried", op.id, bi, op.method, shown)
				}
			}
		}
		if customGen && respTok != "" && tokens[respTok] == nil {
			s.Fail("C16.cookie-token-not-issued", "op%d (b%d %s %s, cookie sent %s(%s)): the response leaves a CSRF cookie whose value (%d bytes) the key generator never produced", op.id, bi, op.method, shown, alias(op.cookie), op.cookieKind, len(respTok))
		}

		if ext != nil && ext.track {
			for _, tkn := range seen {
				tk := tokens[tkn]
				if !now.Before(tk.untilMin) || tk.deleted || (singleUse && tk.consumed) {
					continue // only tokens that are still live matter
				}
				if g, ok := ext.given[tkn]; ok && g != tkn {
					s.Fail("C16.storage-key-aliases-request-buffer", "after op%d (b%d %s %s): the key string the middleware handed to Storage.Set for the live token %s no longer reads as that token (%d bytes, changed by a later request): it points into a reusable request buffer, so a storage that keeps its key in process (internal/storage/memory does) loses or confuses the token",
						op.id, bi, op.method, shown, alias(tkn), len(g))
					break
				}
			}
		}

		// ---- model update ----
		if tk := tokens[respTok]; tk != nil {
			if t := now.Add(idleEff); t.After(tk.untilMax) {
				tk.untilMax = t
			}
			tk.untilMin = now.Add(idleEff)
			if backend == "session" && sess == nil && sidAfter != "" {
				sessMay[sidAfter] = map[string]bool{respTok: true}
			}
		}
		if sess != nil && op.ran {
			// A session record changes only through a successful Set of its key. A request that
			// reached a handler wrote at most the token the middleware settled on for it (the one
			// in the context, also in the response cookie unless DeleteToken expired that), and
			// no token at all as its last write if DeleteToken ran and no storage call failed.
			// A rejected request wrote nothing (the session middleware saves what it loaded).
			left := map[string]bool{}
			cleared := op.kind == "logout" && op.deletedOK && op.sGetF+op.sSetF == 0
			if !cleared {
				for _, t := range []string{op.ctxTok, respTok} {
					if tokens[t] != nil {
						left[t] = true
					}
				}
			}
			for _, k := range op.sDropd {
				sessMay[k] = map[string]bool{}
			}
			for _, k := range op.sWrote {
				if cleared {
					for _, t := range seen {
						if sessMay[k][t] {
							tokens[t].deleted = true
						}
					}
					if tk := tokens[op.ctxTok]; tk != nil {
						tk.deleted = true
					}
				}
				sessMay[k] = left
			}
		}
		if op.ran && unsafe {
			lastAdmitted = op.x
		}
		if op.ran && unsafe && singleUse {
			if tk := tokens[op.x]; tk != nil {
				tk.consumed = true
				if op.dF {
					tk.consumedUnk = true
				}
				tk.note += fmt.Sprintf(" (admitted as single-use token in op%d)", op.id)
				if sess != nil {
					tk.note += fmt.Sprintf(" (session storage in op%d: failed get=%d set=%d, records written %v)", op.id, op.sGetF, op.sSetF, op.sWrote)
					// The presented token can still be in the stored session only if no write of the
					// record succeeded in this request. That is excused only if as many faults fired
					// as the backend has independent write rounds for the consumption: one with the
					// session middleware (the save at the end of the request), two with the store
					// alone (delete of the presented token, write of the replacement: a load + a save
					// each, one fault defeats one round).
					rounds := 1
					if sessMode == "store" {
						rounds = 2
					}
					if len(op.sWrote) == 0 && op.sGetF+op.sSetF >= rounds {
						tk.consumedUnk = true
						s.Count("probe_session_consumption_lost_to_faults")
					} else if op.sGetF+op.sSetF > 0 {
						s.Count("probe_session_consumption_survived_a_fault")
					}
				}
			}
		}
		if op.kind == "logout" && op.ran {
			// the cookie of the response is the expired one: the token the
			// middleware validated or issued was still extended before
			if tk := tokens[op.ctxTok]; tk != nil {
				if t := now.Add(idleEff); t.After(tk.untilMax) {
					tk.untilMax = t
				}
			}
			if op.noHandler {
				s.Fail("C16.handler-from-context", "op%d: HandlerFromContext returned nil behind the middleware", op.id)
			}
			if op.deletedOK {
				if backend == "session" {
					// the token kept in the caller's session is dropped, whatever the cookie said
					// (fault stratum: see the session records above)
					if sess == nil && sidAfter != "" {
						for _, t := range seen {
							if sessMay[sidAfter][t] {
								tokens[t].deleted = true
							}
						}
						if tk := tokens[op.ctxTok]; tk != nil {
							tk.deleted = true
						}
						sessMay[sidAfter] = map[string]bool{}
					}
				} else if tk := tokens[op.cookie]; tk != nil {
					tk.deleted = true
					if op.dF {
						tk.deletedUnk = true
					}
				}
			}
		}
		first := ""
		if len(deny) > 0 {
			first = deny[0]
		}
		h.str(op.kind + op.method).str(op.xKind + "/" + op.cookieKind).str(op.originKind + "/" + op.refKind).str(scheme).str(strconv.FormatBool(op.ran)).str(first)
		if sess != nil {
			h.str(op.plan).str(strconv.Itoa(op.sGetF) + "/" + strconv.Itoa(op.sSetF) + "/" + strconv.Itoa(len(op.sWrote)))
		}
	}
	if admitted > 0 {
		s.Count("probe_runs_with_admitted_unsafe")
	}
	s.CountN("probe_unsafe_admitted", admitted)
	s.CountN("probe_unsafe_rejected", rejected)
	nfaults := s.Counters["fault_storage_get_error"] + s.Counters["fault_storage_set_error"] + s.Counters["fault_storage_delete_error"]
	info.StateHash = h.h
	info.Nontrivial = (admitted > 0 && rejected > 0) || nfaults > 0
	info.Sample = map[string]any{"config": cfgLine, "requests": len(ops), "unsafe_admitted": admitted, "unsafe_rejected": rejected}
}

// ---- concurrent stratum ---------------------------------------------------------
//
// 2-3 browsers run as concurrent tasks against a protected handler that yields and
// takes simulated time; some requests replay a token another request is just
// using. Only what does not depend on the interleaving is judged: the origin rule,
// the token having been issued and matching the cookie, and single use: a token
// is consumed from the moment the protected handler runs for a request presenting
// it, so a request ISSUED after that moment must not be admitted with it.

type csrfConc struct {
	cfgLine    string
	singleUse  bool
	extractor  string
	cookieName string
	host       string
	nb         int
	app        *fiber.App
	ops        *[]*csrfOp
	tokens     map[string]*csrfTok
	alias      func(string) string
	forged     func() string
	attach     func(path string, hdr [][2]string, x string, multipart bool) (string, [][2]string, []byte)
	exact      []string
	wild       []csrfWild
}

func csrfConcurrent(s *simrt.Sim, info *harness.RunInfo, k *csrfConc) {
	preempt := simrt.PickS(s, 150, 0, 50, 400)
	nper := make([]int, k.nb)
	for i := range nper {
		nper[i] = s.Range(2, 6)
	}
	s.Logf("concurrent: %d browsers, preempt=%d", k.nb, preempt)
	s.SetPreempt(preempt)
	var wg sync.WaitGroup
	for bi := 0; bi < k.nb; bi++ {
		wg.Add(1)
		simrt.GoNamed("browser"+strconv.Itoa(bi), func() {
			defer wg.Done()
			b := harness.NewBrowser("b" + strconv.Itoa(bi))
			conn := harness.NewConn(k.app, "10.0.1."+strconv.Itoa(bi+1))
			for j := 0; j < nper[bi] && !s.Failed(); j++ {
				simrt.Sleep(simrt.PickS(s, 0, 0, 5*time.Millisecond, 100*time.Millisecond, 400*time.Millisecond, time.Second))
				own, _ := b.Get(k.cookieName)
				op := &csrfOp{id: len(*k.ops), br: bi, kind: "unsafe", method: simrt.PickS(s, "POST", "POST", "PUT", "PATCH"), host: k.host, victim: -1}
				*k.ops = append(*k.ops, op)
				op.dur = simrt.PickS(s, 200*time.Millisecond, 0, 5*time.Millisecond, time.Second, 50*time.Millisecond)
				op.x, op.xKind, op.cookie, op.cookieKind = own, "current", own, "natural"
				path := "/do"
				c := s.Draw(12)
				if own == "" && c < 11 {
					c = 11
				}
				switch {
				case c < 5:
				case c < 9:
					// replay the token of a request of another browser whose protected
					// handler has been entered; prefer one that is still in there
					var inflight, done []*csrfOp
					for _, o := range *k.ops {
						if o.br != bi && o.kind == "unsafe" && o.x != "" && o.hstart != 0 {
							if o.ret == 0 {
								inflight = append(inflight, o)
							} else {
								done = append(done, o)
							}
						}
					}
					pool := inflight
					if len(pool) == 0 || (len(done) > 0 && s.Chance(250)) {
						pool = done
					}
					if len(pool) > 0 {
						v := pool[s.Draw(len(pool))]
						op.victim = v.id
						op.x, op.xKind, op.cookie, op.cookieKind = v.x, "replay", v.x, "equal"
					}
				case c < 10:
					op.x, op.xKind, op.cookie, op.cookieKind = k.forged(), "forged", "", "equal"
					op.cookie = op.x
				case c < 11:
					op.x, op.xKind = k.forged(), "forged"
				default:
					op.kind, op.method, path = "safe", "GET", "/page"
				}
				unsafe := op.kind == "unsafe"
				if unsafe && k.extractor == "cookie" {
					op.x = op.cookie
				}
				hdr := [][2]string{{"X-Op", strconv.Itoa(op.id)}}
				if unsafe {
					switch s.Draw(6) {
					case 0, 1, 2:
						op.originKind = "absent"
					case 3, 4:
						op.origin, op.originKind = "http://"+k.host, "same"
					default:
						op.origin, op.originKind = simrt.PickS(s, "https://evilexample.com", "http://evil.io", "https://"+k.host), "hostile"
					}
					if op.origin != "" {
						hdr = append(hdr, [2]string{"Origin", op.origin})
					}
				}
				if op.cookie != "" {
					hdr = append(hdr, [2]string{"Cookie", k.cookieName + "=" + op.cookie})
				}
				var body []byte
				if unsafe && op.x != "" {
					path, hdr, body = k.attach(path, hdr, op.x, false)
				}
				op.issue = s.Stamp()
				s.Logf("op%d b%d issue %s %s token=%s(%s victim=op%d) cookie=%s origin=%q t=%s", op.id, bi, op.kind, op.method, k.alias(op.x), op.xKind, op.victim, k.alias(op.cookie), op.origin, time.Now().Format("05.000"))
				resp := conn.Do(harness.Req{Method: op.method, Path: path, Host: k.host, Headers: hdr, Body: body}.Bytes())
				op.ret = s.Stamp()
				op.status = resp.Status
				if _, err := b.Apply(resp, op.method); err != nil {
					s.Fail("C16.response-unparsable", "op%d %s: a strict client cannot parse the response: %v", op.id, op.method, err)
					return
				}
				now, _ := b.Get(k.cookieName)
				s.Logf("op%d b%d ret status=%d ran=%v cookie now %s", op.id, bi, op.status, op.ran, k.alias(now))
				// the token cookie a response leaves is the token the middleware settled on for THIS request
				// (the one its handler finds in the context), whatever other requests do meanwhile
				for _, sc := range resp.Header["Set-Cookie"] {
					if v, ok := strings.CutPrefix(sc, k.cookieName+"="); ok && op.ran && op.ctxTok != "" {
						v, _, _ = strings.Cut(v, ";")
						if v != "" && v != op.ctxTok {
							s.Fail("C16.cookie-carries-another-requests-token", "op%d (b%d %s): the handler was given token %s, the response sets the cookie to %s (a token issued for another, concurrent request)", op.id, bi, op.method, k.alias(op.ctxTok), k.alias(v))
						}
					}
				}
			}
		})
	}
	join(&wg)
	s.SetPreempt(0)
	if s.Failed() {
		return
	}

	ops := *k.ops
	h := newHasher().str(k.cfgLine)
	admitted, rejected, overlapReplays := 0, 0, 0
	presenters := map[string][]*csrfOp{} // token -> unsafe requests that presented it
	for _, op := range ops {
		if op.kind == "unsafe" && op.x != "" {
			presenters[op.x] = append(presenters[op.x], op)
		}
	}
	for _, op := range ops {
		if op.ret == 0 {
			s.Fail("C16.progress", "op%d never returned", op.id)
			continue
		}
		if op.kind == "safe" {
			if !op.ran || op.status != 200 {
				s.Fail("C16.safe-blocked", "op%d (b%d GET /page) is a safe request but ran=%v status=%d", op.id, op.br, op.ran, op.status)
			}
			h.str("safe")
			continue
		}
		var deny []string
		if op.origin != "" {
			if ok, _ := csrfAllowed(op.origin, "http", op.host, k.exact, k.wild); !ok {
				deny = append(deny, "origin-mismatch")
			}
		}
		switch {
		case op.x == "":
			deny = append(deny, "no-token")
		case k.extractor != "cookie" && op.x != op.cookie:
			deny = append(deny, "cookie-mismatch")
		}
		if op.x != "" && k.tokens[op.x] == nil {
			deny = append(deny, "unissued")
		}
		class := "admit"
		if len(deny) > 0 {
			class = deny[0]
			if op.ran {
				id := map[string]string{"origin-mismatch": "C16.origin-mismatch-admitted", "no-token": "C16.no-token-admitted", "cookie-mismatch": "C16.cookie-mismatch-admitted", "unissued": "C16.unissued-token-admitted"}[deny[0]]
				s.Fail(id, "op%d (b%d %s http://%s/do, concurrent browsers) reached the protected handler although the model rejects it: %s [token %s(%s), cookie %s, Origin %q]",
					op.id, op.br, op.method, op.host, strings.Join(deny, ","), k.alias(op.x), op.xKind, k.alias(op.cookie), op.origin)
			}
		}
		if op.ran && k.singleUse {
			// single use: nobody issued after the handler ran for this token may be admitted with it
			for _, a := range presenters[op.x] {
				if a != op && a.ran && a.hstart < op.issue {
					s.Fail("C16.consumed-token-admitted", "op%d (b%d %s, issued at event %d) reached the protected handler with the single-use token %s although the protected handler had already been entered (event %d) for op%d (b%d), which presented the same token%s",
						op.id, op.br, op.method, op.issue, k.alias(op.x), a.hstart, a.id, a.br, map[bool]string{true: " and was still inside the handler", false: ""}[a.ret > op.issue])
					break
				}
			}
		}
		if op.victim >= 0 {
			if v := ops[op.victim]; v.ran && v.ret > op.issue {
				overlapReplays++
				class += "+replay-in-handler"
			} else {
				class += "+replay"
			}
		}
		// completeness: the browser's current token, presented by nobody else, acceptable origin
		if len(deny) == 0 && op.xKind == "current" && len(presenters[op.x]) == 1 {
			if !op.ran {
				s.Fail("C16.valid-request-rejected", "op%d (b%d %s http://%s/do, concurrent browsers) was rejected with status %d although it presented the token %s its browser had just been given, which no other request presented; Origin %q",
					op.id, op.br, op.method, op.host, op.status, k.alias(op.x), op.origin)
			} else if op.status != 200 {
				s.Fail("C16.admitted-status", "op%d ran the protected handler (which answers 200) but the client got %d", op.id, op.status)
			}
		}
		if op.ran {
			admitted++
		} else {
			rejected++
		}
		h.str(op.xKind).str(class).str(strconv.FormatBool(op.ran))
	}
	s.CountN("probe_concurrent_unsafe_admitted", admitted)
	s.CountN("probe_concurrent_unsafe_rejected", rejected)
	s.CountN("probe_replay_issued_while_victim_in_handler", overlapReplays)
	s.Count("probe_concurrent_runs")
	info.StateHash = h.h
	info.Nontrivial = overlapReplays > 0
	info.Sample = map[string]any{"config": k.cfgLine, "requests": len(ops), "unsafe_admitted": admitted, "unsafe_rejected": rejected, "replays_in_handler": overlapReplays}
}

// ---- two requests of one client at the instant its token's record expires -------------------------
//
// A small scenario of its own (the big histories are sequential per client): one browser, token T issued with a
// lifetime of 3 s on an in-tree memory storage. At the very instant at which the coarse clock makes T's record
// expire - the storages' collectors tick at that instant too - the browser sends a POST presenting T and a GET
// carrying T's cookie, as two tasks; the seeded scheduler orders their storage calls, the clock tick and the collector.
// What is demanded afterwards follows from the statement alone: if the POST was admitted, T was looked up alive and
// its lifetime renewed, so 1.25 s later - well inside the renewed lifetime, whichever side of the tick the renewal
// fell on - a POST presenting T is admitted (it was neither consumed nor deleted: no single use, no DeleteToken here).
func csrfExpiryRace(s *simrt.Sim, info *harness.RunInfo) {
	backend := simrt.PickS(s, "memory", "extmem")
	preempt := simrt.PickS(s, 400, 250, 600)
	phase := s.Draw(1000)
	cfgLine := fmt.Sprintf("expiry-race backend=%s preempt=%d phase=%d", backend, preempt, phase)
	s.Logf("cfg %s", cfgLine)
	simrt.Sleep(time.Duration(phase) * time.Millisecond)
	harness.StartCoarseClock(s, 0)
	start := time.Now() // the clock daemon ticks at start + k s; so do the collectors of storages created now
	nid := 0
	cfg := csrf.Config{IdleTimeout: 3 * time.Second, KeyGenerator: func() string {
		nid++
		return fmt.Sprintf("race-token-%04d-%s", nid, strings.Repeat("r", 12))
	}}
	if backend == "extmem" {
		cfg.Storage = simexport.NewMemoryStorageGC(time.Second)
	}
	app := fiber.New()
	app.Use(csrf.New(cfg))
	app.Get("/page", func(c fiber.Ctx) error { return c.SendString("page") })
	app.Post("/do", func(c fiber.Ctx) error { return c.SendString("done") })
	app.Handler()
	tokenOf := func(r *harness.Resp) string {
		for _, sc := range r.Header["Set-Cookie"] {
			if v, ok := strings.CutPrefix(sc, "csrf_="); ok {
				return strings.SplitN(v, ";", 2)[0]
			}
		}
		return ""
	}
	post := func(conn *harness.Conn, tok string) int {
		return conn.Do(harness.Req{Method: "POST", Path: "/do", Headers: [][2]string{{"Cookie", "csrf_=" + tok}, {"X-Csrf-Token", tok}}}.Bytes()).Status
	}
	// issue T off the grid, so that the clock value at that moment is not in question
	simrt.Sleep(time.Duration(s.Draw(3))*time.Second + 250*time.Millisecond)
	c0 := harness.NewConn(app, "10.0.0.1")
	tok := tokenOf(c0.Do(harness.Req{Method: "GET", Path: "/page"}.Bytes()))
	if tok == "" {
		s.Fail("C16.harness", "expiry race: no token was issued")
		return
	}
	// the third tick from now makes the record expire
	since := time.Since(start)
	nextTick := start.Add((since/time.Second + 1) * time.Second)
	pairAt := nextTick.Add(2 * time.Second)
	var s1, s2 int
	var tok2 string
	s.SetPreempt(preempt)
	var wg sync.WaitGroup
	wg.Add(2)
	simrt.GoNamed("post-with-token", func() {
		defer wg.Done()
		conn := harness.NewConn(app, "10.0.0.1")
		simrt.Sleep(time.Until(pairAt))
		s1 = post(conn, tok)
	})
	simrt.GoNamed("get-with-cookie", func() {
		defer wg.Done()
		conn := harness.NewConn(app, "10.0.0.1")
		simrt.Sleep(time.Until(pairAt))
		r := conn.Do(harness.Req{Method: "GET", Path: "/page", Headers: [][2]string{{"Cookie", "csrf_=" + tok}}}.Bytes())
		s2, tok2 = r.Status, tokenOf(r)
	})
	join(&wg)
	s.SetPreempt(0)
	simrt.Sleep(1250 * time.Millisecond)
	s3 := post(c0, tok)
	s.Logf("expiry race: POST %d, GET %d (cookie afterwards %q), POST 1.25 s later %d", s1, s2, tok2, s3)
	raced := s1 == 200 && tok2 != "" && tok2 != tok
	if raced {
		// the GET found the record expired while the POST had found it alive
		s.Count("probe_lookup_raced_with_expiry_of_the_record")
	}
	if s1 == 200 && s3 != 200 {
		s.Fail("C16.valid-token-rejected-after-concurrent-lookup", "backend %s: a POST presenting token T was admitted at the instant T's record was due to expire (its lifetime of 3 s was renewed), a GET with T's cookie ran at the same instant; 1.25 s later a POST presenting T got status %d: the renewed record is gone although the token was neither consumed nor deleted", backend, s3)
	}
	info.StateHash = newHasher().str(cfgLine).int(s1).int(s3).str(fmt.Sprint(raced)).h
	info.Nontrivial = raced
	info.Sample = map[string]any{"config": cfgLine}
}
