package engines

import (
	"fmt"
	"strconv"
	"strings"
	"sync"
	"time"

	"github.com/gofiber/fiber/v3"
	"github.com/gofiber/fiber/v3/middleware/cache"
	recoverer "github.com/gofiber/fiber/v3/middleware/recover"

	"verif.local/sim/harness"
	"verif.local/sim/simrt"
)

// C14 — cache middleware: history predicates of DESIGN.md A.2 over concurrent
// request histories with expiry, invalidation and a bounded store.

func init() {
	harness.Register(&harness.Engine{
		Name: "cache", Property: "C14", Level: "exploration",
		Main:       cacheMain,
		MaxSimTime: 20 * time.Minute,
		Rule: "per run the tape draws storage (built-in memory / SimStorage), MaxBytes, Expiration or ExpirationGenerator, invalidator, StoreResponseHeaders, CacheControl, Next, clock phase, preemption rate, " +
			"2-6 clients x 1-10 timed GET/HEAD/POST requests on 1-4 paths with no-cache/no-store/invalidate markers; every origin execution has a unique body; " +
			"distinct = hash of (configuration, per-request (key, outcome class hit/miss/unreachable/none, served execution age class)); non-trivial = at least one hit and one expiry, eviction or invalidation",
		Assumptions: []string{
			"freshness is checked up to the documented granularity: whole seconds plus the 300 ms refresh of the cache clock (a hit must be requested less than expiration+2 s after the origin execution it serves started)",
			"the MaxBytes bound is observed on SimStorage only (live *_body values after every storage mutation); with the built-in memory store only panics, deadlocks and history predicates are observable",
			"storage errors are not injected for this property",
		},
		Components: map[string]string{
			"cache middleware, manager, heap, msgp codec":   "real",
			"cache clock goroutine (300 ms)":                "real (instrumented), on the simulated clock",
			"internal/memory storage + GC":                  "real (instrumented)",
			"external storage":                              "stub SimStorage (TTL on the coarse clock), chosen per run",
			"utils.Timestamp updater":                       "stub daemon on the simulated clock, random phase",
			"fasthttp accept loop / worker pool":            "stub (harness.Conn); codecs real",
			"sync.Mutex / sync.Pool / goroutines / atomics": "simulated by simrt",
		},
	})
}

type cacheOp struct {
	id, client int
	method     string
	path       string
	target     string
	noCache    bool
	noStore    bool
	invalidate bool
	next       bool // cfg.Next says: do not store
	// what the origin will answer if executed
	wantStatus int
	size       int
	empty      bool
	ctype      string
	enc        string
	durMs      int
	expS       int // ExpirationGenerator value
	// observed
	issueT, retT time.Time
	issue, ret   uint64
	ran          bool
	execStart    time.Time
	execEnd      uint64
	execBody     string
	status       int
	body         string
	rctype       string
	renc         string
	xcache       string
	xextra       string
	cacheControl string
	panicked     bool
	panics       bool // asks the application's callback to panic (fault stratum)
}

func cacheMain(s *simrt.Sim, info *harness.RunInfo) {
	useSim := s.Chance(500)
	maxBytes := 0
	if s.Chance(500) {
		maxBytes = s.Range(40, 200)
	}
	E := simrt.PickS(s, 2, 1, 3, 5)
	expGen := s.Chance(250)
	useInval := s.Chance(400)
	storeHdr := s.Chance(400)
	cacheCtl := s.Chance(200)
	useNext := s.Chance(250)
	npaths := s.Range(1, harness.Scale(4, 6))
	nclients := s.Range(2, harness.Scale(6, 9))
	preempt := simrt.PickS(s, 150, 0, 50, 400)
	phase := s.Draw(1000)

	simrt.Sleep(time.Duration(phase) * time.Millisecond)
	harness.StartCoarseClock(s, 0)
	simrt.Sleep(time.Duration(s.Draw(300)) * time.Millisecond)

	var ops []*cacheOp
	cfg := cache.Config{
		Expiration:           time.Duration(E) * time.Second,
		MaxBytes:             uint(maxBytes),
		StoreResponseHeaders: storeHdr,
		CacheControl:         cacheCtl,
	}
	// fault stratum: a callback of the application panics for some requests, behind a recover middleware.
	// Such a request gets its 500; what is demanded afterwards is that every other request is still answered
	panicFaults := (expGen || useNext) && s.Chance(150)
	if expGen {
		cfg.ExpirationGenerator = func(c fiber.Ctx, _ *cache.Config) time.Duration {
			simrt.Yield(300)
			if panicFaults && c.Get("X-Panic") == "1" {
				s.Count("fault_callback_panic")
				panic("ExpirationGenerator: injected panic")
			}
			return time.Duration(atoi(c.GetRespHeader("X-Exp"))) * time.Second
		}
	}
	if useInval {
		cfg.CacheInvalidator = func(c fiber.Ctx) bool {
			simrt.Yield(301)
			return c.Get("X-Invalidate") == "1"
		}
	}
	if useNext {
		cfg.Next = func(c fiber.Ctx) bool {
			simrt.Yield(302)
			if panicFaults && !expGen && c.Get("X-Panic") == "1" && len(c.Response().Body()) > 0 {
				// (the call after the handler ran, inside the section that stores the response)
				s.Count("fault_callback_panic")
				panic("Next: injected panic")
			}
			return c.Get("X-Next") == "1"
		}
	}
	// the name of the status header and the cache key are configurable: a key that leaves the query out
	// (the default) or one built from the path plus one query parameter
	cacheHeader := simrt.PickS(s, "X-Cache", "X-Cache", "X-My-Cache-Status")
	cfg.CacheHeader = cacheHeader
	keyWithQuery := s.Chance(250)
	if keyWithQuery {
		cfg.KeyGenerator = func(c fiber.Ctx) string {
			simrt.Yield(303)
			return strings.Clone(c.Path()) + "|v=" + strings.Clone(c.Query("v"))
		}
	}
	outerMW := s.Chance(400)
	storeFaults := useSim && s.Chance(200)
	info.Faults = storeFaults || panicFaults
	var sim *harness.SimStorage
	if useSim {
		sim = harness.NewSimStorage(s, "cache-store")
		sim.KeyOracle = "C14.storage-key-aliases-request-buffer"
		sim.ValOracle = "C14.storage-value-aliases-response-buffer"
		cfg.Storage = sim
		// fault stratum: some Set / Get calls fail. The middleware ignores storage errors by design, so a
		// response may then be lost or half-stored; what is still demanded is that the bytes held never
		// exceed MaxBytes, that nothing panics and that every request is answered
		if storeFaults {
			sim.FailSet = simrt.PickS(s, 100, 250, 0)
			sim.FailGet = simrt.PickS(s, 0, 100)
		}
		// a storage behind a wire: some calls take time
		if s.Chance(350) {
			sim.DelayPermille = simrt.PickS(s, 100, 300, 600)
			sim.Delays = []time.Duration{time.Millisecond, 300 * time.Millisecond, 700 * time.Millisecond, 1100 * time.Millisecond}
		}
		if maxBytes > 0 {
			sim.OnOp = func(op, key string) {
				total := 0
				for k, v := range sim.Live() {
					if strings.HasSuffix(k, "_body") {
						total += len(v)
					}
				}
				if total > maxBytes {
					s.Fail("C14.maxbytes", "after %s %q the store holds %d body bytes, MaxBytes=%d", op, key, total, maxBytes)
				}
			}
		}
	}
	cfgLine := fmt.Sprintf("storage=%s maxBytes=%d E=%d expGen=%v inval=%v storeHdr=%v cacheControl=%v next=%v paths=%d clients=%d preempt=%d phase=%d storageDelays=%d cacheHeader=%s keyWithQuery=%v",
		map[bool]string{false: "memory", true: "sim"}[useSim], maxBytes, E, expGen, useInval, storeHdr, cacheCtl, useNext, npaths, nclients, preempt, phase, func() int {
			if sim != nil {
				return sim.DelayPermille
			}
			return 0
		}(), cacheHeader, keyWithQuery)
	s.Logf("cfg %s", cfgLine)

	nexec := 0
	app := fiber.New()
	if panicFaults {
		app.Use(recoverer.New())
	}
	if outerMW {
		// something in front of the cache that still has work to do when the chain comes back (access log,
		// metrics): the response stays in flight for a while after the cache has produced it
		app.Use(func(c fiber.Ctx) error {
			err := c.Next()
			simrt.Yield(305)
			if s.Chance(300) {
				simrt.Sleep(time.Millisecond)
			}
			return err
		})
	}
	app.Use(cache.New(cfg))
	origin := func(c fiber.Ctx) error {
		op := ops[atoi(c.Get("X-Op"))]
		op.ran = true
		op.execStart = time.Now()
		nexec++
		id := fmt.Sprintf("%s#%d#", op.path, nexec)
		body := id + strings.Repeat("x", max(0, op.size-len(id)))
		op.execBody = body
		if op.empty {
			// a response without a body: the execution is recognised by a content type of its own
			body = ""
			op.ctype = "application/x-e" + strconv.Itoa(nexec)
			op.execBody = "ctype:" + op.ctype
		}
		s.Logf("op%d origin exec %q", op.id, id)
		simrt.Yield(303)
		if op.durMs > 0 {
			simrt.Sleep(time.Duration(op.durMs) * time.Millisecond)
		}
		c.Set("Content-Type", op.ctype)
		if op.enc != "" {
			c.Set("Content-Encoding", op.enc)
		}
		c.Set("X-Extra", "extra-"+strconv.Itoa(nexec))
		if expGen {
			c.Set("X-Exp", strconv.Itoa(op.expS))
		}
		op.execEnd = s.Stamp()
		return c.Status(op.wantStatus).SendString(body)
	}
	app.All("/*", origin)
	app.Handler()

	type plan struct {
		think []int
		ops   []*cacheOp
	}
	plans := make([]plan, nclients)
	thinks := []int{0, 300, 900, E * 1000, E*1000 + 1500, 2500}
	ctypes := []string{"text/plain", "application/json", "text/html; charset=utf-8"}
	for ci := range plans {
		n := s.Range(1, harness.Scale(10, 16))
		for j := 0; j < n; j++ {
			op := &cacheOp{id: len(ops), client: ci, method: simrt.PickS(s, "GET", "GET", "GET", "HEAD", "POST"),
				path: "/p" + strconv.Itoa(s.Draw(npaths)), wantStatus: 200, expS: E}
			if s.Chance(60) {
				// paths that end like the suffixes a cache may append to its keys
				op.path += simrt.PickS(s, "_HEAD", "_body", "_GET", "_GET_body", "_HEAD_body")
				s.Count("probe_path_ends_like_a_key_suffix")
			}
			// path is the identity of the cache key (what the KeyGenerator returns), target the request line
			op.target = op.path
			switch {
			case keyWithQuery:
				v := strconv.Itoa(s.Draw(2))
				op.target, op.path = op.path+"?v="+v, op.path+"|v="+v
			case s.Chance(200):
				op.target += "?v=" + strconv.Itoa(s.Draw(3)) // not part of the default key
			}
			if s.Chance(120) {
				op.noCache = true
			}
			if s.Chance(80) {
				op.noStore = true
			}
			if useInval && s.Chance(150) {
				op.invalidate = true
			}
			if useNext && s.Chance(150) {
				op.next = true
			}
			if panicFaults && s.Chance(200) {
				op.panics = true
			}
			if s.Chance(250) {
				op.wantStatus = simrt.PickS(s, 404, 500, 302, 410, 201, 301)
			}
			op.size = s.Range(12, 60)
			if s.Chance(100) {
				op.empty = true // no body at all (a 204, or a 200 without content)
				op.size = 0
				if op.wantStatus == 200 && s.Chance(500) {
					op.wantStatus = 204
				}
			}
			if maxBytes > 0 && s.Chance(150) {
				op.size = maxBytes + s.Range(1, 20)
			}
			op.ctype = ctypes[s.Draw(len(ctypes))]
			if s.Chance(200) {
				op.enc = simrt.PickS(s, "gzip", "br")
			}
			op.durMs = simrt.PickS(s, 0, 0, 200, 1200, 0)
			if expGen {
				op.expS = simrt.PickS(s, 1, 2, 4)
			}
			ops = append(ops, op)
			plans[ci].ops = append(plans[ci].ops, op)
			plans[ci].think = append(plans[ci].think, thinks[s.Draw(len(thinks))])
		}
	}
	s.SetPreempt(preempt)
	var wg sync.WaitGroup
	for ci := range plans {
		wg.Add(1)
		p := plans[ci]
		simrt.GoNamed("client"+strconv.Itoa(ci), func() {
			defer wg.Done()
			conn := harness.NewConn(app, "10.0.0."+strconv.Itoa(ci+1))
			for j, op := range p.ops {
				simrt.Sleep(time.Duration(p.think[j]) * time.Millisecond)
				req := harness.Req{Method: op.method, Path: op.target, Headers: [][2]string{{"X-Op", strconv.Itoa(op.id)}}}
				var cc []string
				if op.noCache {
					cc = append(cc, "no-cache")
				}
				if op.noStore {
					cc = append(cc, "no-store")
				}
				if len(cc) > 0 {
					// the directive among others, and with the optional whitespace that list syntax
					// allows around the commas (RFC 9110 5.6.1); spelling stays lower case
					switch s.Draw(5) {
					case 1:
						cc = append(cc, "max-age=0")
					case 2:
						cc = append([]string{"max-age=0"}, cc...)
					case 3:
						cc = append(cc, "no-transform")
					}
					sep := simrt.PickS(s, ", ", ",", " , ", "\t, ", " ,")
					if len(cc) > 1 && sep != ", " {
						s.Count("probe_directive_list_with_unusual_whitespace")
					}
					req.Headers = append(req.Headers, [2]string{"Cache-Control", strings.Join(cc, sep)})
				}
				if op.invalidate {
					req.Headers = append(req.Headers, [2]string{"X-Invalidate", "1"})
				}
				if op.next {
					req.Headers = append(req.Headers, [2]string{"X-Next", "1"})
				}
				if op.panics {
					req.Headers = append(req.Headers, [2]string{"X-Panic", "1"})
				}
				op.issue, op.issueT = s.Stamp(), time.Now()
				s.Logf("op%d issue %s %s nocache=%v nostore=%v inval=%v next=%v t=%s", op.id, op.method, op.path, op.noCache, op.noStore, op.invalidate, op.next, op.issueT.Format("05.000"))
				func() {
					defer func() {
						if r := recover(); r != nil {
							op.panicked = true
							s.Fail("C14.panic", "op%d %s %s: %v", op.id, op.method, op.path, r)
							s.Abort()
						}
					}()
					resp := conn.Do(req.Bytes())
					op.status, op.body = resp.Status, string(resp.Body)
					op.rctype, op.renc = resp.Get("Content-Type"), resp.Get("Content-Encoding")
					op.xcache, op.xextra = resp.Get(cacheHeader), resp.Get("X-Extra")
					op.cacheControl = resp.Get("Cache-Control")
				}()
				op.ret, op.retT = s.Stamp(), time.Now()
				s.Logf("op%d ret status=%d xcache=%q body=%.16q ran=%v", op.id, op.status, op.xcache, op.body, op.ran)
				if op.panicked {
					simrt.Yield(304) // aborted
				}
			}
		})
	}
	join(&wg)
	s.SetPreempt(0)
	if s.Failed() {
		return
	}

	if sim != nil {
		sim.CheckVals()
	}
	if storeFaults || panicFaults {
		for _, r := range ops {
			if r.ret == 0 {
				s.Fail("C14.progress", "op%d never returned", r.id)
			}
		}
		info.StateHash = newHasher().str(cfgLine).str("store-faults").h
		info.Sample = map[string]any{"config": cfgLine + " store-faults"}
		return
	}

	// ---- oracles over the history ----
	cacheable := map[int]bool{200: true, 203: true, 204: true, 206: true, 300: true, 301: true, 404: true, 405: true, 410: true, 414: true, 501: true}
	byBody := map[string]*cacheOp{}
	for _, op := range ops {
		if op.ran {
			byBody[op.execBody] = op
		}
	}
	h := newHasher().str(cfgLine)
	hits, expiries := 0, 0
	for _, r := range ops {
		if r.ret == 0 {
			s.Fail("C14.progress", "op%d never returned", r.id)
			continue
		}
		bkey := r.body
		if bkey == "" && strings.HasPrefix(r.rctype, "application/x-e") {
			bkey = "ctype:" + r.rctype
		}
		x := byBody[bkey]
		if x == nil && r.body == "" && r.xcache == "hit" && sim != nil {
			if found, earlier := sim.ExpiredGetBetween2(r.method+"_body", r.path, r.issue, r.ret); found && earlier {
				// the body record had been stored with an earlier expiry than the entry referring to it
				s.Fail("C14.hit-body-expired-before-entry", "op%d %s %s: hit with status %d and an empty body: the external storage held %q with an earlier expiry than the entry that refers to it", r.id, r.method, r.path, r.status, r.path+"_"+r.method+"_body")
				continue
			} else if found {
				// entry and body expire together; the entry was looked up just before, the body just after that moment
				s.Fail("C14.hit-body-expired-separately", "op%d %s %s: hit with status %d and an empty body: the external storage expired %q between the lookup of the entry and of its body", r.id, r.method, r.path, r.status, r.path+"_"+r.method+"_body")
				continue
			}
		}
		if x == nil {
			s.Fail("C14.transparent", "op%d %s %s got status %d with a body no origin execution produced: %.40q (cache header %q)", r.id, r.method, r.path, r.status, r.body, r.xcache)
			continue
		}
		class := r.xcache
		if r.noStore {
			if r.xcache != "" {
				s.Fail("C14.nostore", "op%d (no-store) carries cache header %q", r.id, r.xcache)
			}
			if x != r {
				s.Fail("C14.nostore", "op%d (no-store) was answered with the body of op%d's execution", r.id, x.id)
			}
		}
		if x != r {
			// served from the cache
			hits++
			age := r.issueT.Sub(x.execStart)
			exp := time.Duration(E) * time.Second
			if expGen {
				exp = time.Duration(x.expS) * time.Second
			}
			if r.xcache != "hit" {
				s.Fail("C14.transparent", "op%d got the body of op%d's execution but cache header %q", r.id, x.id, r.xcache)
			}
			if r.ran {
				s.Fail("C14.transparent", "op%d ran the origin handler but got the body of op%d's execution", r.id, x.id)
			}
			if x.method != r.method || x.path != r.path {
				s.Fail("C14.transparent", "op%d %s %s served the execution of op%d %s %s (other key)", r.id, r.method, r.path, x.id, x.method, x.path)
			}
			if r.status != x.wantStatus || r.rctype != x.ctype || r.renc != x.enc {
				s.Fail("C14.transparent", "op%d hit differs from the origin response of op%d: status %d/%d ctype %q/%q encoding %q/%q", r.id, x.id, r.status, x.wantStatus, r.rctype, x.ctype, r.renc, x.enc)
			}
			if storeHdr && !strings.HasPrefix(r.xextra, "extra-") {
				s.Fail("C14.transparent", "op%d hit lacks the stored response header X-Extra (StoreResponseHeaders)", r.id)
			}
			if storeHdr && x.status == x.wantStatus && r.xextra != x.xextra {
				s.Fail("C14.transparent", "op%d hit carries X-Extra=%q, origin execution of op%d sent %q", r.id, r.xextra, x.id, x.xextra)
			}
			if age >= exp+2*time.Second {
				s.Fail("C14.fresh", "op%d (issued %s) was served op%d's execution started %s: age %v with expiration %v", r.id, r.issueT.Format("05.000"), x.id, x.execStart.Format("05.000"), age, exp)
			}
			if r.noCache {
				s.Fail("C14.nocache", "op%d (no-cache) was served from the cache (execution of op%d)", r.id, x.id)
			}
			if x.noStore {
				s.Fail("C14.nostore", "the response of op%d (no-store) was served to op%d", x.id, r.id)
			}
			if !cacheable[x.wantStatus] {
				s.Fail("C14.uncacheable", "op%d was served the non-cacheable status %d response of op%d", r.id, x.wantStatus, x.id)
			}
			if x.method == "POST" {
				s.Fail("C14.uncacheable", "op%d was served the response to op%d, a POST (not in Methods)", r.id, x.id)
			}
			if x.next {
				s.Fail("C14.uncacheable", "op%d was served the response of op%d, which Next excluded from caching", r.id, x.id)
			}
			for _, v := range ops {
				if v.invalidate && !v.noStore && v.method == r.method && v.path == r.path && v.ret != 0 && v.ret <= r.issue && x.ret <= v.issue {
					s.Fail("C14.invalidate", "op%d (issued after invalidating op%d returned) was served the response of op%d, which had returned before op%d was issued", r.id, v.id, x.id, v.id)
				}
			}
			switch {
			case age < time.Second:
				class += "<1"
			case age < exp:
				class += "<E"
			default:
				class += ">=E"
			}
		} else {
			if r.status != r.wantStatus {
				s.Fail("C14.transparent", "op%d ran the origin (status %d) but the client got %d", r.id, r.wantStatus, r.status)
			}
			if r.xcache == "hit" {
				s.Fail("C14.transparent", "op%d ran the origin but is marked as a cache hit", r.id)
			}
		}
		h.str(r.method + r.path).str(class)
	}
	for i, a := range ops {
		for _, b := range ops[i+1:] {
			if a.method == b.method && a.path == b.path && a.ran && b.ran && b.execStart.Sub(a.execStart) >= time.Duration(E)*time.Second {
				expiries++
			}
		}
	}
	if hits > 0 {
		s.Count("probe_runs_with_hit")
	}
	s.CountN("probe_hits", hits)
	s.CountN("probe_same_key_executions_an_expiration_apart", expiries)
	if sim != nil {
		dels := 0
		for _, k := range sim.DeletedKeys {
			if strings.HasSuffix(k, "_body") {
				dels++
			}
		}
		s.CountN("probe_bodies_deleted_from_store", dels)
	}
	for i, a := range ops {
		for _, b := range ops[i+1:] {
			if a.client != b.client && a.method == b.method && a.path == b.path && a.issue < b.ret && b.issue < a.ret {
				s.Count("probe_same_key_requests_overlapped")
			}
		}
	}
	info.StateHash = h.h
	info.Nontrivial = hits > 0 && (expiries > 0 || maxBytes > 0 || useInval)
	info.Sample = map[string]any{"config": cfgLine, "ops": len(ops), "hits": hits}
}
