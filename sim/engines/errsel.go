package engines

import (
	"errors"
	"fmt"
	"sort"
	"strconv"
	"strings"
	"time"

	"github.com/gofiber/fiber/v3"

	"verif.local/sim/harness"
	"verif.local/sim/simrt"
)

// C08 — error handler selection (DESIGN.md 3.3 / A.7).
//
// One mount tree is drawn per run and built several times from fresh apps;
// every build, every start-up and every call of App.ErrorHandler iterates
// the prefix -> app map in an order permuted from the tape. Each generated
// request is sent to every build; which configured handler ran (and how
// often, and with which error value) is compared with the reference function
// chosen(path, tree), and the builds are compared with each other.

func init() {
	harness.Register(&harness.Engine{
		Name: "errsel", Property: "C08", Level: "exploration",
		Main:       errselMain,
		MaxSimTime: time.Minute,
		Rule: "per run the tape draws a mount tree of 1-4 sub-apps below the root (prefixes from /api /api-v2 /api/v1 /apix /a /v1 /web /Admin /Admin/Sub, nested mounts, mounts from groups /g or /api, " +
			"top-down / bottom-up / shuffled mount order, each app with or without its own ErrorHandler, optional pass-through middleware before and around the routes), " +
			"1-12 requests (paths inside, beside, between and one or two bytes short of the prefixes; GET or POST; error raised by a route, a root / group / sub-app middleware, after the chain returned, or by the router: 404 / 405; " +
			"error value *fiber.Error with a code, package-level fiber error, plain error; handler that fails returning a plain error, a *fiber.Error of a 4xx / 5xx code or a wrapped one; " +
			"25% of the targets carry a query string (also right after a mount prefix), 12% use the absolute form of the request line, 35% of the requests after the first have exactly the byte length of their predecessor's path but lie in another error scope (same connection, same pooled context)) each sent 1-2 times to each of 2-4 fresh builds of the tree, all under tape-permuted map iteration orders; " +
			"30% of the runs draw from a prefix alphabet without string-prefix siblings and without handler-less mounts nested below a configured one; " +
			"distinct = hash of (tree, per request (path, method, site, error kind, handlers that ran per build)); " +
			"non-trivial = some request path had at least two mount prefixes as string prefixes, or was owed to a sub-application's handler",
		Assumptions: []string{
			"paths and prefixes have no trailing slash and a request path is always spelled like the mount prefix it lies below, also for the prefixes with upper-case letters (routing normalisation is not part of the question); no two apps share one full mount prefix; no app is mounted twice",
			"where an error is raised is decided by what actually ran (the sites record it): the oracle never predicts routing, except that an unregistered path yields the router's 404 and a POST to a path registered for GET its 405",
			"only the statement's clauses are compared: which configured handler ran, how often, with which error value; the status under the default handler; 500 after a failing handler. Bodies and the status written by a succeeding custom handler are logged, not compared",
			"requests are sequential (the choice involves no state shared between requests); the nondeterminism explored is the map iteration order",
		},
		Components: map[string]string{
			"App.ErrorHandler, mount, group mount, start-up flattening of sub-apps, router, DefaultErrorHandler": "real (instrumented: every map range over ordered keys is permuted from the tape)",
			"fasthttp accept loop / worker pool": "stub (harness.Conn); request/response codecs real; in 15 % of the runs fasthttp's real connection loop (ServeConn) serves the requests over a simulated connection with tape-chosen segmentation and short reads",
			"sync.Pool / sync.Once / mutexes":    "simulated by simrt",
		},
	})
}

type esApp struct {
	parent  int
	group   string // "" = mounted on the parent app itself
	prefix  string
	full    string
	hasEH   bool
	mw      bool
	after   bool
	grpMw   bool
	covered bool // a sub-application is mounted at "/" inside this one
	keepEH  bool // ... and this one keeps a handler of its own all the same (the inner one is the innermost)
	covers  bool // this node is such a sub-application
	alias   int  // > 0: this node is a second mount of the application object of node alias
	slash   bool // mounted with a trailing slash in the prefix ("/api/"): the same mount
	late    bool // mounted only after the application has started and served an error
}

type esOp struct {
	id      int
	path    string
	method  string
	site    string // "" = nobody but the routes / the router raises
	errKind int
	code    int
	ehFail  int    // 0 handler succeeds, 1 fails without writing, 2 fails after writing
	ehErr   int    // what a failing handler returns: see esHandlerFailure
	query   string // "" or "?..." appended to the request target
	absForm bool   // request line in absolute form (GET http://host/path HTTP/1.1)
	twin    bool   // same byte length as the previous path, other error scope
}

// target is what goes into the request line; the reference function only
// ever sees op.path.
func (op *esOp) target() string {
	t := op.path + op.query
	if op.absForm {
		t = "http://example.com" + t
	}
	return t
}

// esHandlerFailure is the error a failing error handler returns.
func esHandlerFailure(kind int) (error, string) {
	switch kind {
	case 1:
		return fiber.NewError(fiber.StatusTeapot, "handler failed with a 418 fiber error"), "fiber.NewError(418)"
	case 2:
		return fiber.NewError(fiber.StatusNotFound, "handler failed: file not found"), "fiber.NewError(404)"
	case 3:
		return fiber.ErrServiceUnavailable, "fiber.ErrServiceUnavailable(503)"
	case 4:
		return fmt.Errorf("render failed: %w", fiber.NewError(fiber.StatusPaymentRequired)), "wrapped fiber.NewError(402)"
	case 5:
		return fiber.NewError(fiber.StatusBadGateway), "fiber.NewError(502)"
	default:
		return errors.New("error handler failed"), "errors.New(plain)"
	}
}

type esCall struct {
	app  int
	err  error
	path string
}

type esReq struct {
	op      *esOp
	build   int
	rep     int
	err     error // the value a site returns
	raised  []string
	okRan   bool
	calls   []esCall
	status  int
	body    string
	visited []string
}

func esContains(prefix, path string) bool {
	return path == prefix || strings.HasPrefix(path, prefix+"/")
}

// esChosen is the reference function of DESIGN.md A.7.
func esChosen(path string, tree []esApp) int {
	best := 0
	for i := 1; i < len(tree); i++ {
		if tree[i].hasEH && esContains(tree[i].full, path) && (best == 0 || len(tree[i].full) > len(tree[best].full) ||
			len(tree[i].full) == len(tree[best].full) && tree[i].covers && tree[i].parent == best) {
			best = i
		}
	}
	return best
}

func esErrName(kind, code int) string {
	switch kind {
	case 0:
		return "fiber.NewError(" + strconv.Itoa(code) + ")"
	case 1:
		return "fiber.NewError(" + strconv.Itoa(code) + ",msg)"
	case 2:
		return "errors.New(plain)"
	default:
		return "fiber.Err<" + strconv.Itoa(code) + ">"
	}
}

func errselMain(s *simrt.Sim, info *harness.RunInfo) {
	harness.ChooseTransportNoPause(s, 150) // some runs go through fasthttp's real connection loop
	s.SetPreempt(0)
	safe := s.Chance(300)
	// "/Admin", "/Admin/Sub": prefixes that are not all lower case. Request paths below them are spelled
	// exactly like the prefix (whether another spelling of the path belongs to the mount is a question
	// of routing normalisation, which the statement leaves open and this engine does not ask)
	alphabet := []string{"/api", "/api-v2", "/api/v1", "/apix", "/a", "/v1", "/web", "/Admin", "/Admin/Sub"}
	groups := []string{"/g", "/api"}
	if safe {
		alphabet = []string{"/api", "/web", "/v1", "/shop", "/api/v1", "/x1", "/Admin"}
		groups = []string{"/g", "/grp"}
	}
	nsub := s.Range(1, 4)
	tree := []esApp{{parent: -1, hasEH: s.Chance(500)}}
	used := map[string]bool{"": true}
	for i := 1; i <= nsub; i++ {
		a := esApp{}
		if len(tree) > 1 && s.Chance(400) {
			a.parent = 1 + s.Draw(len(tree)-1)
		}
		if s.Chance(200) {
			a.group = simrt.PickS(s, groups...)
		}
		k := s.Draw(len(alphabet))
		ok := false
		rootMount := false
		// (not chained: an application mounted at "/" inside one that is itself mounted at "/" gets the same
		// key as its parent in fiber's mount table, see DESIGN.md section 5)
		if a.parent != 0 && a.group == "" && !tree[a.parent].covered && !tree[a.parent].covers && s.Chance(150) {
			// mounted at "/" inside a mounted application: the two share one prefix. Either only the inner
			// one has a handler to offer, or both have and the inner one is the innermost
			a.prefix, a.full, ok, rootMount = "/", tree[a.parent].full, true, true
			tree[a.parent].covered = true
			tree[a.parent].keepEH = tree[a.parent].hasEH && s.Chance(500)
			if tree[a.parent].keepEH {
				s.Count("probe_root_mounted_inner_app_both_handlers")
			}
		}
		for j := 0; j < len(alphabet) && !rootMount; j++ {
			a.prefix = alphabet[(k+j)%len(alphabet)]
			a.full = tree[a.parent].full + a.group + a.prefix
			if !used[a.full] {
				ok = true
				break
			}
		}
		if !ok {
			continue
		}
		used[a.full] = true
		a.hasEH = s.Chance(600) || rootMount
		a.covers = rootMount
		a.mw = s.Chance(300)
		a.after = s.Chance(250)
		a.grpMw = a.group != "" && s.Chance(400)
		a.slash = s.Chance(150)
		a.late = s.Chance(200)
		tree = append(tree, a)
	}
	// one application object mounted a second time under another prefix of the root (multi-tenant style):
	// its handler is owed the errors below either prefix
	if len(tree) > 1 && s.Chance(150) {
		i := 1 + s.Draw(len(tree)-1)
		leaf := true
		for j := range tree {
			if j > 0 && tree[j].parent == i {
				leaf = false
			}
		}
		p := simrt.PickS(s, "/tenant-b", "/alt")
		if leaf && !used[p] {
			used[p] = true
			tree = append(tree, esApp{parent: 0, prefix: p, full: p, hasEH: tree[i].hasEH, alias: i})
			s.Count("probe_application_mounted_under_two_prefixes")
		}
	}
	for i := range tree {
		// only leaves are mounted late (an app mounted late brings its own mounts with it anyway)
		for j := range tree {
			if j != i && j > 0 && tree[j].parent == i {
				tree[i].late = false
			}
		}
	}
	tree[0].late = false
	for i := range tree {
		// late mounts go onto the running root application; what a sub-application that is already
		// mounted makes of a later mount of its own is not the root's to know (not asked)
		if tree[i].parent != 0 {
			tree[i].late = false
		}
	}
	if safe {
		// no handler-less mount below (by prefix) a mount that configured a handler
		for changed := true; changed; {
			changed = false
			for i := 1; i < len(tree); i++ {
				for j := 1; j < len(tree) && !tree[i].hasEH; j++ {
					if j != i && tree[j].hasEH && esContains(tree[j].full, tree[i].full) {
						tree[i].hasEH, changed = true, true
					}
				}
			}
		}
	}
	for i := range tree {
		if tree[i].covered && !tree[i].keepEH {
			tree[i].hasEH = false
		}
	}
	for i := range tree {
		if a := tree[i].alias; a > 0 {
			tree[i].hasEH = tree[a].hasEH // one application object, one configuration
		}
	}
	mountMode := s.Draw(3) // 0 top-down, 1 bottom-up, 2 shuffled
	order := make([]int, 0, len(tree)-1)
	for i := 1; i < len(tree); i++ {
		order = append(order, i)
	}
	switch mountMode {
	case 1:
		sort.Sort(sort.Reverse(sort.IntSlice(order)))
	case 2:
		for i := len(order) - 1; i > 0; i-- {
			j := i - s.Draw(i+1)
			order[i], order[j] = order[j], order[i]
		}
	}
	routesFirst := s.Chance(500)
	nbuilds := s.Range(2, 4)
	var tb strings.Builder
	for i, a := range tree {
		if i == 0 {
			fmt.Fprintf(&tb, "app0=root(EH=%v)", a.hasEH)
			continue
		}
		fmt.Fprintf(&tb, " app%d=%s(EH=%v, mounted in app%d", i, a.full, a.hasEH, a.parent)
		if a.group != "" {
			fmt.Fprintf(&tb, " group %s", a.group)
		}
		fmt.Fprintf(&tb, " at %s", a.prefix)
		if a.alias > 0 {
			fmt.Fprintf(&tb, " = the application object of app%d", a.alias)
		}
		if a.slash {
			tb.WriteString("/ (trailing slash)")
		}
		if a.late {
			tb.WriteString(", mounted late")
		}
		if a.mw {
			tb.WriteString(", mw")
		}
		if a.after {
			tb.WriteString(", after-mw")
		}
		if a.grpMw {
			tb.WriteString(", group-mw")
		}
		tb.WriteString(")")
	}
	treeLine := tb.String()
	cfgLine := fmt.Sprintf("safe=%v %s mountOrder=%v routesFirst=%v builds=%d", safe, treeLine, order, routesFirst, nbuilds)
	s.Logf("cfg %s", cfgLine)

	registered := map[string]bool{}
	for _, a := range tree {
		registered[a.full+"/x"] = true
		registered[a.full+"/ok"] = true
	}

	// ---- operations ----
	var ops []*esOp
	nops := s.Range(1, 12)
	fixed := []string{"/api/x", "/", "/x", "/ok", "/api", "/api-v2/x", "/api/v1/x", "/apix/x", "/a/x", "/ap/x", "/api/v/x", "/api/v1x/x", "/g/api/x", "/api/api/x", "/web/x", "/v1/x"}
	var sites []string
	sites = append(sites, "", "", "", "root-mw")
	for i := 1; i < len(tree); i++ {
		if tree[i].mw {
			sites = append(sites, "app"+strconv.Itoa(i)+"-mw")
		}
		if tree[i].after {
			sites = append(sites, "app"+strconv.Itoa(i)+"-after")
		}
		if tree[i].grpMw {
			sites = append(sites, "grp"+strconv.Itoa(i)+"-mw")
		}
	}
	for len(ops) < nops {
		op := &esOp{id: len(ops), method: "GET"}
		switch s.Draw(5) {
		case 0, 1: // inside a mount (or the root)
			j := s.Draw(len(tree))
			op.path = tree[j].full + simrt.PickS(s, "/x", "/ok", "/zzz", "", "/x/deeper")
		case 2: // beside: the prefix continues without a segment boundary
			j := 1 + s.Draw(len(tree)-1)
			op.path = tree[j].full + simrt.PickS(s, "x/x", "-v2/x", "x", "-v2", "x/zzz", "-v2/ok", "0/x")
		case 3: // between: one or two bytes short of a prefix
			j := 1 + s.Draw(len(tree)-1)
			p := tree[j].full
			p = p[:len(p)-1-s.Draw(2)]
			op.path = strings.TrimRight(p, "/") + simrt.PickS(s, "/x", "", "/zzz", "/ok")
		default:
			op.path = simrt.PickS(s, fixed...)
		}
		if op.path == "" {
			op.path = "/"
		}
		if len(op.path) > 2 && s.Chance(80) {
			// the same place spelled differently on the wire: one letter percent-encoded, or a doubled
			// slash. The application routes on the path as sent (UnescapePath is off), so this is another
			// path, outside every mount whose prefix it no longer spells
			if s.Chance(500) {
				for k := 1; k < len(op.path); k++ {
					if c := op.path[k]; c >= 'a' && c <= 'z' {
						op.path = op.path[:k] + fmt.Sprintf("%%%02X", c) + op.path[k+1:]
						break
					}
				}
			} else {
				op.path = "/" + op.path
			}
			s.Count("probe_path_spelled_with_escape_or_double_slash")
		}
		// a pooled context serves consecutive requests of one connection: follow a
		// request with one of exactly the same byte length in another error scope
		if len(ops) > 0 && s.Chance(350) {
			prev := ops[len(ops)-1].path
			prevScope := esChosen(prev, tree)
			start := s.Draw(len(tree))
			for k := 0; k < len(tree); k++ {
				j := (start + k) % len(tree)
				fill := len(prev) - len(tree[j].full) - 1
				if fill < 1 {
					continue
				}
				cand := tree[j].full + "/" + strings.Repeat("z", fill)
				if fill == 1 {
					cand = tree[j].full + "/x"
				} else if fill == 2 && s.Chance(500) {
					cand = tree[j].full + "/ok"
				}
				if esChosen(cand, tree) != prevScope {
					op.path, op.twin = cand, true
					break
				}
			}
		}
		qpm := 250
		for _, a := range tree[1:] {
			if a.full == op.path {
				qpm = 500 // the target ends exactly at a mount prefix
			}
		}
		if s.Chance(qpm) {
			op.query = simrt.PickS(s, "?debug=1", "?x=y", "?", "?next=/api/v1/x", "?a=1&b=/web", "?/x")
		}
		if s.Chance(120) {
			op.absForm = true
		}
		if s.Chance(200) {
			op.method = "POST"
		}
		op.site = simrt.PickS(s, sites...)
		op.errKind = s.Draw(4)
		op.code = simrt.PickS(s, 400, 403, 404, 409, 418, 500, 503)
		if op.errKind == 3 {
			op.code = simrt.PickS(s, 400, 401, 403, 404, 405, 502)
		}
		if s.Chance(200) {
			op.ehFail = 1 + s.Draw(2)
			op.ehErr = s.Draw(6)
		}
		ops = append(ops, op)
	}

	// ---- builds ----
	var reqs []*esReq
	cur := func(c fiber.Ctx) *esReq { return reqs[atoi(c.Get("X-Op"))] }
	raise := func(rq *esReq, site string) error {
		rq.raised = append(rq.raised, site)
		return rq.err
	}
	mw := func(id string) fiber.Handler {
		return func(c fiber.Ctx) error {
			rq := cur(c)
			rq.visited = append(rq.visited, id)
			if rq.op.site == id {
				return raise(rq, id)
			}
			return c.Next()
		}
	}
	after := func(id string) fiber.Handler {
		return func(c fiber.Ctx) error {
			rq := cur(c)
			rq.visited = append(rq.visited, id)
			if err := c.Next(); err != nil {
				return err
			}
			if rq.op.site == id {
				return raise(rq, id)
			}
			return nil
		}
	}
	eh := func(i int) fiber.ErrorHandler {
		return func(c fiber.Ctx, err error) error {
			rq := cur(c)
			rq.calls = append(rq.calls, esCall{app: i, err: err, path: strings.Clone(c.Path())})
			herr, _ := esHandlerFailure(rq.op.ehErr)
			switch rq.op.ehFail {
			case 1:
				return herr
			case 2:
				_ = c.Status(418).SendString("partial")
				return herr
			}
			return c.Status(460 + i).SendString("EH" + strconv.Itoa(i))
		}
	}
	routes := func(app *fiber.App, i int) {
		app.Get("/x", func(c fiber.Ctx) error {
			rq := cur(c)
			rq.visited = append(rq.visited, "app"+strconv.Itoa(i)+"-route")
			return raise(rq, "app"+strconv.Itoa(i)+"-route")
		})
		app.Get("/ok", func(c fiber.Ctx) error {
			rq := cur(c)
			rq.okRan = true
			rq.visited = append(rq.visited, "app"+strconv.Itoa(i)+"-ok")
			return c.SendString("ok")
		})
	}
	build := func() *fiber.App {
		apps := make([]*fiber.App, len(tree))
		for i, a := range tree {
			cfg := fiber.Config{}
			if a.hasEH {
				cfg.ErrorHandler = eh(i)
			}
			apps[i] = fiber.New(cfg)
		}
		for i, a := range tree {
			if a.alias > 0 {
				apps[i] = apps[a.alias]
			}
		}
		apps[0].Use(mw("root-mw"))
		for i, a := range tree {
			if a.mw {
				apps[i].Use(mw("app" + strconv.Itoa(i) + "-mw"))
			}
			if a.after {
				apps[i].Use(after("app" + strconv.Itoa(i) + "-after"))
			}
			if routesFirst && a.alias == 0 {
				routes(apps[i], i)
			}
		}
		mount := func(i int) {
			a := tree[i]
			prefix := a.prefix
			if a.slash {
				prefix += "/"
			}
			if a.group == "" {
				apps[a.parent].Use(prefix, apps[i])
				return
			}
			g := apps[a.parent].Group(a.group)
			if a.grpMw {
				g.Use(mw("grp" + strconv.Itoa(i) + "-mw"))
			}
			g.Use(prefix, apps[i])
		}
		anyLate := false
		for _, i := range order {
			if tree[i].late {
				anyLate = true
				continue
			}
			mount(i)
		}
		if !routesFirst {
			for i := range tree {
				if tree[i].alias == 0 {
					routes(apps[i], i)
				}
			}
		}
		apps[0].Handler()
		if anyLate {
			// the application is up and has already answered an error when further sub-applications
			// are mounted; all judged requests come afterwards and see the whole tree
			warm := &esReq{op: &esOp{id: -1, site: "none"}}
			reqs = append(reqs, warm)
			harness.NewConn(apps[0], "10.0.9.9").Do(harness.Req{Method: "GET", Path: "/warm-up-404", Headers: [][2]string{{"X-Op", strconv.Itoa(len(reqs) - 1)}}}.Bytes())
			for _, i := range order {
				if tree[i].late {
					mount(i)
				}
			}
			apps[0].Handler()
			s.Count("probe_sub_application_mounted_after_start")
		}
		return apps[0]
	}
	conns := make([]*harness.Conn, nbuilds)
	for b := range conns {
		conns[b] = harness.NewConn(build(), "10.0.0."+strconv.Itoa(b+1))
	}

	// ---- workload + oracles ----
	reported := map[string]bool{}
	fail := func(id, format string, args ...any) {
		if reported[id] {
			s.Count("suppressed_repeat_" + id)
			return
		}
		reported[id] = true
		s.Fail(id, format, args...)
	}
	h := newHasher().str(cfgLine)
	nontrivial := false
	for _, op := range ops {
		want := esChosen(op.path, tree)
		nstr := 0
		for i := 1; i < len(tree); i++ {
			if strings.HasPrefix(op.path, tree[i].full) {
				nstr++
			}
		}
		if nstr >= 2 || want != 0 {
			nontrivial = true
		}
		if nstr >= 2 {
			s.Count("probe_path_with_several_prefix_candidates")
		}
		_, herrName := esHandlerFailure(op.ehErr)
		if op.ehFail == 0 {
			herrName = "-"
		}
		what := fmt.Sprintf("op%d %s %s [path %s] (site %q, %s, handler-fails=%d returning %s) on tree [%s]", op.id, op.method, op.target(), op.path, op.site, esErrName(op.errKind, op.code), op.ehFail, herrName, treeLine)
		if op.twin {
			s.Count("probe_equal_length_path_in_other_scope_follows")
		}
		if op.query != "" && registered[op.path] == false && esChosen(op.path, tree) != 0 && tree[esChosen(op.path, tree)].full == op.path {
			s.Count("probe_query_right_after_mount_prefix")
		}
		if op.absForm {
			s.Count("probe_absolute_form_request_line")
		}
		outcomes := map[string]string{} // who ran -> first request that showed it
		var outcomeOrder []string
		offBoundary := false
		h.str(op.target()).str(op.method).str(op.site).int(op.ehErr).int(op.errKind).int(op.code).int(op.ehFail)
		for b := 0; b < nbuilds; b++ {
			reps := 1 + s.Draw(2)
			for r := 0; r < reps; r++ {
				rq := &esReq{op: op, build: b, rep: r}
				switch op.errKind {
				case 0:
					rq.err = fiber.NewError(op.code)
				case 1:
					rq.err = fiber.NewError(op.code, "custom message "+strconv.Itoa(op.id))
				case 2:
					rq.err = errors.New("plain failure " + strconv.Itoa(op.id))
				default:
					rq.err = map[int]*fiber.Error{400: fiber.ErrBadRequest, 401: fiber.ErrUnauthorized, 403: fiber.ErrForbidden, 404: fiber.ErrNotFound, 405: fiber.ErrMethodNotAllowed, 502: fiber.ErrBadGateway}[op.code]
				}
				reqs = append(reqs, rq)
				var resp *harness.Resp
				func() {
					defer func() {
						if p := recover(); p != nil {
							fail("C08.panic", "%s build%d/rep%d: the request panicked: %v", what, b, r, p)
						}
					}()
					resp = conns[b].Do(harness.Req{Method: op.method, Path: op.target(), Headers: [][2]string{{"X-Op", strconv.Itoa(len(reqs) - 1)}}}.Bytes())
				}()
				if resp == nil {
					return // the connection's context is in an unknown state after a panic
				}
				rq.status, rq.body = resp.Status, string(resp.Body)
				var ran []string
				for _, c := range rq.calls {
					ran = append(ran, "EH"+strconv.Itoa(c.app))
				}
				sig := strings.Join(ran, "+")
				if sig == "" {
					sig = "no configured handler"
				}
				tag := fmt.Sprintf("build%d/rep%d", b, r)
				s.Logf("op%d %s %s %s site=%q err=%s: visited=%v raised=%v ok-route=%v -> status=%d body=%q ran=[%s] owed=EH%d(configured=%v)",
					op.id, tag, op.method, op.target(), op.site, esErrName(op.errKind, op.code), rq.visited, rq.raised, rq.okRan, rq.status, rq.body, sig, want, tree[want].hasEH)
				if resp.ReadErr != nil {
					fail("C08.harness", "%s %s: request could not be served: %v", what, tag, resp.ReadErr)
					continue
				}
				if len(rq.raised) > 1 {
					s.Count("probe_two_sites_raised")
					continue
				}
				// which error does the framework owe to a handler?
				var owed error
				owedCode := 0 // for router errors
				switch {
				case len(rq.raised) == 1:
					owed = rq.err
				case rq.okRan:
					// the chain returned nil
					if len(rq.calls) > 0 {
						fail("C08.spurious-handler", "%s %s: the chain returned no error, yet [%s] ran", what, tag, sig)
					}
					if _, seen := outcomes["-"]; !seen {
						outcomes["-"] = tag
					}
					continue
				default:
					lateScope := false
					for k := 1; k < len(tree); k++ {
						if tree[k].late && esContains(tree[k].full, op.path) {
							lateScope = true
						}
					}
					if lateScope {
						// whether the router answers 404 or 405 below a sub-application that was mounted
						// after the start is a question of routing (C01), not of error delivery
						s.Count("probe_router_error_below_late_mount_not_judged")
						continue
					}
					switch {
					case !registered[op.path]:
						owedCode = 404
					case op.method == "POST":
						owedCode = 405
					default:
						s.Count("probe_registered_route_not_reached")
						continue
					}
				}
				if _, seen := outcomes[sig]; !seen {
					outcomes[sig] = tag
					outcomeOrder = append(outcomeOrder, sig)
				}
				switch {
				case len(rq.calls) > 1:
					fail("C08.exactly-once", "%s %s: the error was handed to %d handler invocations [%s], owed to EH%d once", what, tag, len(rq.calls), sig, want)
					continue
				case len(rq.calls) == 1:
					w := rq.calls[0].app
					if tree[want].alias == w && w != 0 {
						w = want // the shared application object, reached through its second mount
					}
					if w != 0 && !esContains(tree[w].full, op.path) {
						offBoundary = true
					}
					if w != want {
						switch {
						case w != 0 && !esContains(tree[w].full, op.path):
							fail("C08.prefix-not-on-segment-boundary", "%s %s: handled by EH%d of the app mounted at %s, which does not contain %s on a segment boundary; owed to EH%d (%s)",
								what, tag, w, tree[w].full, op.path, want, esOwner(tree, want))
						default:
							fail(esShallowID(tree, want, op.path), "%s %s: handled by EH%d (%s) although the innermost configured mount containing the path is EH%d (%s)%s",
								what, tag, w, esOwner(tree, w), want, esOwner(tree, want), esShadowNote(tree, want, op.path))
						}
					}
				default: // no configured handler ran
					if tree[want].hasEH {
						defStatus := 500
						var fe *fiber.Error
						if owed != nil && errors.As(owed, &fe) {
							defStatus = fe.Code
						} else if owed == nil {
							defStatus = owedCode
						}
						switch {
						case rq.status != defStatus:
							fail("C08.not-delivered", "%s %s: no configured handler ran and the response (status %d body %q) is not the default handler's either; owed to EH%d (%s)", what, tag, rq.status, rq.body, want, esOwner(tree, want))
						case want != 0 && !tree[0].hasEH:
							fail(esShallowID(tree, want, op.path), "%s %s: handled by the default handler (root) although the innermost configured mount containing the path is EH%d (%s)%s", what, tag, want, esOwner(tree, want), esShadowNote(tree, want, op.path))
						default:
							fail("C08.unconfigured-app-handler", "%s %s: no configured handler ran, the response (status %d body %q) is the default handler's: the handler of an app that configured none was used; owed to EH%d (%s)",
								what, tag, rq.status, rq.body, want, esOwner(tree, want))
						}
						continue
					}
				}
				// error value seen by the handler
				if len(rq.calls) == 1 {
					got := rq.calls[0].err
					if owed != nil {
						if got != owed {
							fail("C08.error-value", "%s %s: the chain returned %q (%T), EH%d received %q (%T)", what, tag, owed, owed, rq.calls[0].app, got, got)
						}
					} else {
						var fe *fiber.Error
						if !errors.As(got, &fe) || fe.Code != owedCode {
							fail("C08.error-value", "%s %s: the router owes a %d error, EH%d received %q (%T)", what, tag, owedCode, rq.calls[0].app, got, got)
						}
					}
					if op.ehFail != 0 && rq.status != 500 {
						fail("C08.failing-handler-500", "%s %s: EH%d returned %s itself (mode %d), the response status is %d, not 500", what, tag, rq.calls[0].app, herrName, op.ehFail, rq.status)
					}
				} else {
					// the default handler of the root app: status of the error value
					wantStatus := 500
					var fe *fiber.Error
					switch {
					case owed == nil:
						wantStatus = owedCode
					case op.errKind != 2 && errors.As(owed, &fe):
						wantStatus = fe.Code
					}
					if rq.status != wantStatus {
						fail("C08.default-status", "%s %s: default handler: error %s must give status %d, got %d (body %q)", what, tag, esOwedName(op, owed, owedCode), wantStatus, rq.status, rq.body)
					}
				}
			}
		}
		if len(outcomeOrder) > 1 {
			var parts []string
			for _, o := range outcomeOrder {
				parts = append(parts, "["+o+"] first at "+outcomes[o])
			}
			id := "C08.order-dependent"
			switch {
			case offBoundary:
				id = "C08.order-dependent.string-prefix-siblings"
			case esShadow(tree, want, op.path) > 0:
				id = "C08.order-dependent.handlerless-nested-mount"
			}
			fail(id, "%s: the same request on identically built trees was handled differently: %s; owed to EH%d (%s)", what, strings.Join(parts, "; "), want, esOwner(tree, want))
			s.Count("probe_builds_disagreed")
		}
		h.str(strings.Join(outcomeOrder, "|"))
	}
	info.StateHash = h.h
	info.Nontrivial = nontrivial
	info.Sample = map[string]any{"tree": treeLine, "ops": len(ops), "requests": len(reqs), "builds": nbuilds}
}

// esShadow names a mount without a handler of its own that lies deeper than
// the owed mount on this path (0 if none). It only sorts a wrong choice into
// one of two oracle ids; it never decides whether a choice is wrong.
func esShadow(tree []esApp, want int, path string) int {
	for k := 1; k < len(tree); k++ {
		if !tree[k].hasEH && strings.HasPrefix(path, tree[k].full) && strings.Count(tree[k].full, "/") > strings.Count(tree[want].full, "/") {
			return k
		}
	}
	return 0
}

func esShallowID(tree []esApp, want int, path string) string {
	if esShadow(tree, want, path) > 0 {
		return "C08.handlerless-mount-shadows-outer-handler"
	}
	return "C08.not-innermost"
}

func esShadowNote(tree []esApp, want int, path string) string {
	if k := esShadow(tree, want, path); k > 0 {
		return fmt.Sprintf("; app%d mounted at %s configured no handler and lies deeper on this path", k, tree[k].full)
	}
	return ""
}

func esOwner(tree []esApp, i int) string {
	if i == 0 {
		if tree[0].hasEH {
			return "root app"
		}
		return "root app, default handler"
	}
	return "mounted at " + tree[i].full
}

func esOwedName(op *esOp, owed error, code int) string {
	if owed == nil {
		return "router " + strconv.Itoa(code)
	}
	return esErrName(op.errKind, op.code)
}
