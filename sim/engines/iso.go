package engines

import (
	"bufio"
	"bytes"
	"compress/gzip"
	"compress/zlib"
	"errors"
	"fmt"
	"github.com/gofiber/fiber/v3/middleware/adaptor"
	"io"
	"net/http"
	"net/http/httptest"
	"os"
	"regexp"
	"sort"
	"strconv"
	"strings"
	"sync"
	"time"
	"unsafe"

	"github.com/gofiber/fiber/v3"
	"github.com/gofiber/fiber/v3/middleware/timeout"

	"verif.local/sim/harness"
	"verif.local/sim/simrt"
)

// C05 (iso) and C06 (immut): a kitchen-sink application served over recycled
// connection contexts and pooled fiber contexts (DESIGN.md 3.1 / 3.2).
//
// iso:   every request of a concurrent history is also served, beforehand, by
//        a brand-new application with empty pools; what the handler observes
//        and the response must be the same in both worlds.
// immut: handlers keep, without copying, every string / byte slice they can
//        obtain; with Immutable the kept values must still be intact after
//        all later requests recycled the context and the connection buffers,
//        without it they must be stable until the handler returns.

func init() {
	comps := map[string]string{
		"fiber app, router, DefaultCtx, redirect / flash codec, binders":                                                       "real (instrumented)",
		"fasthttp request / response codecs, RequestCtx":                                                                       "real (not instrumented)",
		"fasthttp connection loop (Server.ServeConn: keep-alive, request streaming, ctx/reader/writer reuse, error responses)": "real (not instrumented) in about a third of the runs, over a simulated net.Conn whose segmentation, short reads and pauses come from the tape; otherwise stub: connection tasks own one RequestCtx each and refill it from raw bytes (harness.Conn)",
		"fasthttp accept loop / worker pool":                                                                                   "stub (connections are created by the harness)",
		"sync.Pool (fiber contexts, redirects, binders; fasthttp and bytebufferpool objects)":                                  "simulated: which released object serves the next request is a tape choice; in half of the runs byte buffers are overwritten when they are handed back",
		"template engine (Views), view bindings":                                                                               "rendered through a template file (no engine configured)",
	}
	harness.Register(&harness.Engine{
		Name: "iso", Property: "C05", Level: "exploration", Main: isoMain, MaxSimTime: 10 * time.Minute, DrainTime: 25 * time.Second, // lets fasthttp's file-handler cache (SendFile) expire and close its files before the run is abandoned

		Rule: "per run the tape draws the configuration (Immutable, CaseSensitive, StrictRouting, UnescapePath), 1-4 connection tasks and up to 40 (thorough: 70) requests of about 25 kinds (parameterised / optional / wildcard routes, locals and response headers set by middleware, query/header/cookie/form/JSON binding incl. auto-handling, failing binds and unbalanced-bracket queries, redirects with flash messages and old input, flash display with valid / truncated / forged / missing-field cookies, view bindings rendered through a template file, SendFile, SendFile with options, failing and panicking handlers, 404 with a flash cookie, wrong and unknown methods, malformed requests; proxy headers, ProxyHeader / IP validation; with or without a middleware in front of everything, with or without a custom ErrorHandler that observes too); " +
			"each request is first served by a fresh application with emptied pools (reference), then the whole history runs concurrently on one application with handlers yielding in the middle; distinct = hash of (configuration, sequence of (connection, kind)); non-trivial = a pooled context was reused by a request of another kind",
		Assumptions: []string{
			"the observation vector is: method, path, original URL, route, params, query, headers, cookies, host, IP, scheme, base URL, body, form value, locals and response headers visible at middleware entry, flash messages / old input, bound structs, Accepts, and the response (status, headers without Date, body)",
			"view bindings are observed through Render with a template file (no template engine is configured)",
			"streamed request bodies (StreamRequestBody) and ReduceMemoryUsage are exercised in the runs that use fasthttp's real connection loop",
			"a request is cut into the same segments whenever it is sent within one run, so the reference observation and the history see the same delivery",
		},
		Components: comps,
	})
	harness.Register(&harness.Engine{
		Name: "immut", Property: "C06", Level: "exploration", Main: immutMain, MaxSimTime: 10 * time.Minute, DrainTime: 25 * time.Second, // lets fasthttp's file-handler cache (SendFile) expire and close its files before the run is abandoned

		Rule: "same driver as iso; with Immutable (70 % of the runs) every handler keeps the values of 25 accessors without copying them, next to a deep copy, and all kept values are compared with their copies (and with what the generator put on the wire) after every later request and at the end; without Immutable the values read at handler entry are read again after the handler yielded to other requests. " +
			"distinct = hash of (configuration, sequence of (connection, kind, sizes)); non-trivial = a later request of different length reused the same connection and context",
		Assumptions: []string{
			"a retained value is compared byte-wise with the copy taken when it was obtained; one oracle id per accessor",
		},
		Components: comps,
	})
}

type ksReq struct {
	id     int
	conn   int
	kind   string
	raw    []byte
	wire   map[string]string // what the generator put on the wire, by accessor name
	ref    *ksObs
	got    *ksObs
	refRes string
	gotRes string
}

type ksObs struct {
	mw       map[string]string // at entry of the first middleware
	h        map[string]string // in the final handler
	eh       map[string]string // in the application's error handler (when one is configured)
	reached  bool
	panicked bool
}

type kept struct {
	req      int
	accessor string
	val      string // NOT copied: aliases whatever the accessor returned
	copy     string
}

type ksWorld struct {
	viaAdaptor bool // requests enter through net/http and middleware/adaptor
	s          *simrt.Sim
	reqs       []*ksReq
	obsOf      func(id int) *ksObs
	yield      bool
	immutMode  bool
	immutable  bool
	globalMW   bool // a middleware in front of everything (then every request has a matched route)
	customEH   bool // the application configures its own ErrorHandler (observes, then delegates)
	customCtx  bool // the application brings its own context type (NewCtxFunc)
	wireCheck  bool // routing leaves paths as sent (case-sensitive, no unescaping): accessor values can be compared with the wire
	kept       []*kept
	unstable   []string
}

type bindQ struct {
	Token string   `query:"token"`
	Q     string   `query:"q"`
	N     int      `query:"n"`
	L     []string `query:"l"`
}
type bindH struct {
	A string `header:"X-A"`
}
type bindC struct {
	A string `cookie:"a"`
}
type bindF struct {
	F string `form:"f"`
	G string `form:"g"`
}
type bindU struct {
	ID   string   `uri:"id"`
	Name string   `uri:"name"`
	IDs  []string `uri:"id"`
}

// ksCtx: an application-defined context type (the custom request handler of the router serves it)
type ksCtx struct {
	fiber.DefaultCtx
}

// ksViews: a template engine that prints what it is given
type ksViews struct{}

func (ksViews) Load() error { return nil }
func (ksViews) Render(w io.Writer, name string, bind any, _ ...string) error {
	if name == "broken" {
		return errors.New("template broken: cannot be executed")
	}
	m, ok := bind.(fiber.Map)
	if !ok {
		_, err := fmt.Fprintf(w, "%s:%v", name, bind)
		return err
	}
	ks := make([]string, 0, len(m))
	for k := range m {
		ks = append(ks, k)
	}
	sort.Strings(ks)
	for _, k := range ks {
		fmt.Fprintf(w, "%s=%v;", k, m[k])
	}
	return nil
}

type bindJ struct {
	Name string `json:"name"`
	Age  int    `json:"age"`
}

// files the kitchen-sink app renders / sends: written once per process
var (
	ksFilesOnce sync.Once
	ksTmplPath  string
	ksFilePath  string
)

func ksFiles() {
	ksFilesOnce.Do(func() {
		dir, err := os.MkdirTemp("", "vsim-iso-")
		if err != nil {
			panic(err)
		}
		ksTmplPath = dir + "/binds.tmpl"
		ksFilePath = dir + "/static-file-with-a-rather-long-name-so-that-it-beats-short-urls.txt"
		_ = os.WriteFile(ksTmplPath, []byte("{{range $k, $v := .}}{{$k}}={{$v}};{{end}}"), 0o644)
		_ = os.WriteFile(ksFilePath, []byte("static file content\n"), 0o644)
	})
}

func sortedMap(m map[string]string) string {
	ks := make([]string, 0, len(m))
	for k := range m {
		ks = append(ks, k)
	}
	sort.Strings(ks)
	var b strings.Builder
	for _, k := range ks {
		fmt.Fprintf(&b, "%s=%q ", k, m[k])
	}
	return b.String()
}

// accessors read by handlers; name -> value (NOT cloned here).
func ksAccess(c fiber.Ctx) [][2]string {
	out := [][2]string{
		{"Path", c.Path()}, {"OriginalURL", c.OriginalURL()}, {"Protocol", c.Protocol()}, {"Method", c.Method()},
		{"Query(q)", c.Query("q")}, {"Get(X-A)", c.Get("X-A")}, {"Cookies(a)", c.Cookies("a")},
		{"Host", c.Host()}, {"Hostname", c.Hostname()}, {"IP", c.IP()}, {"BaseURL", c.BaseURL()}, {"Scheme", c.Scheme()},
		{"FormValue(f)", c.FormValue("f")}, {"Body", unsafe.String(unsafe.SliceData(c.Body()), len(c.Body()))},
		{"BodyRaw", unsafe.String(unsafe.SliceData(c.BodyRaw()), len(c.BodyRaw()))},
		{"Get(User-Agent)", c.Get("User-Agent")}, {"Get(Referer)", c.Get("Referer")}, {"Get(Content-Type)", c.Get("Content-Type")},
	}
	qb, hb := fiber.Query[[]byte](c, "q"), fiber.GetReqHeader[[]byte](c, "X-A")
	out = append(out, [2]string{"Query[string](q)", fiber.Query[string](c, "q")}, [2]string{"Query[[]byte](q)", unsafe.String(unsafe.SliceData(qb), len(qb))},
		[2]string{"GetReqHeader[string](X-A)", fiber.GetReqHeader[string](c, "X-A")}, [2]string{"GetReqHeader[[]byte](X-A)", unsafe.String(unsafe.SliceData(hb), len(hb))})
	if r := c.Route(); r != nil {
		out = append(out, [2]string{"Route.Path", r.Path})
		for _, p := range r.Params {
			out = append(out, [2]string{"Params(" + p + ")", c.Params(p)})
		}
	}
	qs := c.Queries()
	qk := make([]string, 0, len(qs))
	for k := range qs {
		qk = append(qk, k)
	}
	sort.Strings(qk)
	for _, k := range qk {
		out = append(out, [2]string{"Queries[" + strings.Clone(k) + "]", qs[k]})
	}
	if ips := c.IPs(); len(ips) > 0 {
		out = append(out, [2]string{"IPs[0]", ips[0]})
	}
	if sub := c.Subdomains(); len(sub) > 0 {
		out = append(out, [2]string{"Subdomains[0]", sub[0]})
	}
	for k, v := range c.GetReqHeaders() {
		if k == "X-B" && len(v) > 0 {
			out = append(out, [2]string{"GetReqHeaders.key(X-B)", k}) // the map's own key string
			out = append(out, [2]string{"GetReqHeaders[X-B]", v[0]})
		}
	}
	return out
}

func (w *ksWorld) observe(c fiber.Ctx, id int, final bool) map[string]string {
	m := map[string]string{}
	for _, kv := range ksAccess(c) {
		m[kv[0]] = strings.Clone(kv[1])
	}
	if final {
		m["Route"] = strings.Clone(c.Route().Path)
		m["Accepts"] = strings.Clone(c.Accepts("application/json", "text/html"))
		m["Accepts(params)"] = strings.Clone(c.Accepts("text/plain;format=flowed", "application/json;version=2", "text/html;level=1"))
		msgs := c.Redirect().Messages()
		var ms []string
		for _, x := range msgs {
			ms = append(ms, fmt.Sprintf("%s=%s/%d", x.Key, x.Value, x.Level))
		}
		m["Messages"] = strings.Join(ms, ",")
		var oi []string
		for _, x := range c.Redirect().OldInputs() {
			oi = append(oi, x.Key+"="+x.Value)
		}
		sort.Strings(oi)
		m["OldInputs"] = strings.Join(oi, ",")
		m["Locals(k)"] = fmt.Sprint(c.Locals("k"))
	} else {
		m["Locals(k)@entry"] = fmt.Sprint(c.Locals("k"))
		rh := c.GetRespHeaders()
		ks := make([]string, 0, len(rh))
		for k, v := range rh {
			ks = append(ks, strings.Clone(k)+"="+strings.Clone(strings.Join(v, "|")))
		}
		sort.Strings(ks)
		m["RespHeaders@entry"] = flashExpiresRe.ReplaceAllString(strings.Join(ks, ";"), "expires=T")
	}
	return m
}

// keep stores accessor values without copying (immut engine).
func (w *ksWorld) keep(c fiber.Ctx, id int) {
	for _, kv := range ksAccess(c) {
		w.kept = append(w.kept, &kept{req: id, accessor: kv[0], val: kv[1], copy: strings.Clone(kv[1])})
	}
}

func (w *ksWorld) checkKept(after string) {
	for _, k := range w.kept {
		if k.val != k.copy {
			// the overwritten content is whatever happens to live in the recycled buffer: not logged
			w.s.Fail("C06.immutable."+accName(k.accessor), "request %d (%s) kept %s=%q (Immutable); %s the kept value no longer reads the same", k.req, w.reqs[k.req].kind, k.accessor, k.copy, after)
			k.copy = strings.Clone(k.val) // report once
		}
	}
}

func accName(a string) string {
	if i := strings.IndexAny(a, "(["); i > 0 {
		return a[:i]
	}
	return a
}

func (w *ksWorld) build(cfg fiber.Config) *fiber.App {
	opID := func(c fiber.Ctx) int { return atoi(c.Get("X-Op")) }
	if w.customEH {
		cfg.ErrorHandler = func(c fiber.Ctx, err error) error {
			id := opID(c)
			if o := w.obsOf(id); o != nil && c.Get("X-Op") != "" {
				o.eh = w.observe(c, id, true)
				if w.immutMode && w.immutable && w.yield {
					w.keep(c, id)
				}
			}
			return fiber.DefaultErrorHandler(c, err)
		}
	}
	app := fiber.New(cfg)
	if w.customCtx {
		app.NewCtxFunc(func(a *fiber.App) fiber.CustomCtx {
			return &ksCtx{DefaultCtx: *fiber.NewDefaultCtx(a)}
		})
	}
	use := func(h fiber.Handler) {
		if w.globalMW {
			app.Use(h)
		}
	}
	use(func(c fiber.Ctx) error {
		id := opID(c)
		o := w.obsOf(id)
		if o != nil {
			o.mw = w.observe(c, id, false)
		}
		c.Locals("k", "local-of-"+strconv.Itoa(id))
		if c.Get("X-SetHdr") != "" {
			c.Set("X-Resp-"+strconv.Itoa(id%3), "r"+strconv.Itoa(id))
		}
		if !(w.immutMode && o != nil) {
			return c.Next()
		}
		if w.immutable && w.yield {
			w.keep(c, id)
		}
		// with or without Immutable: what was read here must read the same until the handler returns
		var before [][2]string
		for _, kv := range ksAccess(c) {
			before = append(before, [2]string{kv[0], strings.Clone(kv[1])})
		}
		err := c.Next()
		after := map[string]string{}
		for _, kv := range ksAccess(c) {
			after[kv[0]] = kv[1]
		}
		for _, kv := range before {
			// Params and Route describe the route that is currently executing: they legitimately differ
			// between the middleware and the handler further down the chain
			if kv[0] == "Path" && w.immutable && c.Get("X-Rewrite") != "" {
				continue // the handler rewrote it
			}
			if v, ok := after[kv[0]]; ok && v != kv[1] && !strings.HasPrefix(kv[0], "Params") && !strings.HasPrefix(kv[0], "Route.") {
				w.s.Fail("C06.stable."+accName(kv[0]), "request %d: %s was %q when the first middleware read it and reads differently after the handler chain ran (still inside the handler)", id, kv[0], kv[1])
			}
		}
		return err
	})
	final := func(c fiber.Ctx, extra func(m map[string]string)) {
		id := opID(c)
		o := w.obsOf(id)
		var before [][2]string
		if w.immutMode && !w.immutable {
			for _, kv := range ksAccess(c) {
				before = append(before, [2]string{kv[0], strings.Clone(kv[1])})
			}
		}
		if w.yield {
			simrt.Yield(700)
			if w.s.Chance(300) {
				simrt.Sleep(time.Millisecond)
			}
		}
		if o != nil {
			o.reached = true
			o.h = w.observe(c, id, true)
			if extra != nil {
				extra(o.h)
			}
		}
		if w.immutMode && w.immutable && w.yield && o != nil {
			w.keep(c, id)
			if c.Get("X-Rewrite") != "" {
				// the handler rewrites the path (as a rewrite middleware does); what was obtained before is a value of its own
				c.Path("/rewritten/by/request-" + strconv.Itoa(id))
				w.s.Count("probe_path_rewritten_after_values_were_kept")
			}
		}
		if w.immutMode && w.wireCheck && o != nil && id >= 0 && id < len(w.reqs) {
			// with or without the option: what an accessor returns is what the request carried
			for _, kv := range ksAccess(c) {
				if want, ok := w.reqs[id].wire[kv[0]]; ok && kv[1] != want && !strings.HasPrefix(kv[0], "Params") {
					w.s.Fail("C06.value."+accName(kv[0]), "request %d: %s returned %q inside the handler, the request carried %q", id, kv[0], strings.ToValidUTF8(kv[1], "?"), want)
				}
			}
		}
		if before != nil {
			after := ksAccess(c)
			for i, kv := range before {
				if i < len(after) && after[i][0] == kv[0] && after[i][1] != kv[1] {
					w.s.Fail("C06.stable."+accName(kv[0]), "request %d: %s was %q at handler entry and reads differently before the handler returned", id, kv[0], kv[1])
				}
			}
		}
	}
	// a middleware with a parameter of its own that looks at it once more when the chain comes back,
	// whether a route took the request or none did
	app.Use("/pm/:tenant", func(c fiber.Ctx) error {
		err := c.Next()
		id := opID(c)
		if o := w.obsOf(id); o != nil && w.immutMode && w.immutable && w.yield {
			if v := c.Params("tenant"); v != "" {
				w.kept = append(w.kept, &kept{req: id, accessor: "Params(tenant) after Next", val: v, copy: strings.Clone(v)})
				if err != nil {
					w.s.Count("probe_param_read_after_no_route_took_the_request")
				}
			}
		}
		return err
	})
	app.Get("/pm/:tenant/:section/:item", func(c fiber.Ctx) error { final(c, nil); return c.SendString("item") })
	app.Get("/u/:id/:name?", func(c fiber.Ctx) error {
		var u bindU
		err := c.Bind().URI(&u)
		final(c, func(m map[string]string) {
			m["BindURI"] = strings.Clone(fmt.Sprintf("%+v err=%v", u, err != nil))
		})
		return c.SendString("user")
	})
	// a handler behind the timeout middleware that does not watch its context and writes late
	app.Get("/slow", timeout.New(func(c fiber.Ctx) error {
		id := opID(c)
		final(c, nil)
		if d := fiber.Query[int](c, "d"); d > 0 {
			simrt.Sleep(time.Duration(d) * time.Millisecond)
		}
		c.Set("X-Late", "late-"+strconv.Itoa(id))
		return c.SendString("slow-" + strconv.Itoa(id))
	}, 50*time.Millisecond))
	// the same struct bound on routes that declare other parameters: its fields must stay empty there
	uriBound := func(body string) fiber.Handler {
		return func(c fiber.Ctx) error {
			var u bindU
			err := c.Bind().URI(&u)
			final(c, func(m map[string]string) {
				m["BindURI"] = strings.Clone(fmt.Sprintf("%+v err=%v", u, err != nil))
			})
			return c.SendString(body)
		}
	}
	app.Get("/w/*", uriBound("wild"))
	app.Get("/files/:dir/+", uriBound("plus"))
	app.All("/bind", func(c fiber.Ctx) error {
		var q bindQ
		var hh bindH
		var ck bindC
		var f bindF
		var j bindJ
		eq, eh, ec := c.Bind().Query(&q), c.Bind().Header(&hh), c.Bind().Cookie(&ck)
		var ef, ej error
		ct := c.Get("Content-Type")
		if strings.HasPrefix(strings.ToLower(ct), "application/json") {
			if c.Query("generic") != "" {
				ej = c.Bind().Body(&j) // dispatches on the content type
			} else {
				ej = c.Bind().JSON(&j)
			}
		} else if strings.HasPrefix(ct, "application/x-www-form-urlencoded") {
			ef = c.Bind().Form(&f)
		}
		qm, hm := map[string][]string{}, map[string][]string{}
		eqm, ehm := c.Bind().Query(&qm), c.Bind().Header(&hm)
		if w.immutMode && w.immutable && w.yield && w.obsOf(opID(c)) != nil {
			for _, src := range []struct {
				name string
				m    map[string][]string
			}{{"Bind.QueryMap", qm}, {"Bind.HeaderMap", hm}} {
				ks := make([]string, 0, len(src.m))
				for k := range src.m {
					ks = append(ks, k) // NOT cloned: the map's own key strings
				}
				sort.Strings(ks)
				for _, k := range ks {
					if k == "Cookie" || k == "Host" || k == "Content-Length" {
						continue
					}
					w.kept = append(w.kept, &kept{req: opID(c), accessor: src.name + ".key", val: k, copy: strings.Clone(k)})
					for _, v := range src.m[k] {
						w.kept = append(w.kept, &kept{req: opID(c), accessor: src.name + ".value", val: v, copy: strings.Clone(v)})
					}
				}
			}
			for _, kv := range [][2]string{{"Bind.Query", q.Q}, {"Bind.Header", hh.A}, {"Bind.Cookie", ck.A}, {"Bind.Form", f.F}, {"Bind.JSON", j.Name}} {
				if kv[1] != "" {
					w.kept = append(w.kept, &kept{req: opID(c), accessor: kv[0], val: kv[1], copy: strings.Clone(kv[1])})
				}
			}
		}
		final(c, func(m map[string]string) {
			m["Bind"] = strings.Clone(fmt.Sprintf("%+v %+v %+v %+v %+v errs=%v|%v|%v|%v|%v", q, hh, ck, f, j, eq != nil, eh != nil, ec != nil, ef != nil, ej != nil))
			m["BindMaps"] = strings.Clone(fmt.Sprintf("query=%v header[X-A]=%v errs=%v|%v", qm, hm["X-A"], eqm != nil, ehm != nil))
		})
		return c.SendString("bound")
	})
	app.All("/bind-auto", func(c fiber.Ctx) error {
		var q bindQ
		err := c.Bind().WithAutoHandling().Query(&q)
		final(c, func(m map[string]string) {
			m["Bind"] = strings.Clone(fmt.Sprintf("%+v err=%v", q, err != nil))
		})
		if err != nil {
			return err
		}
		return c.SendString("auto-bound")
	})
	app.Post("/go", func(c fiber.Ctx) error {
		final(c, nil)
		// levels >= 32 keep the raw MessagePack cookie free of control bytes, so that
		// it can be sent back in a request header at all
		r := c.Redirect().With("status", strings.Clone(c.Query("m", "done")), 33)
		if c.Query("lvl") != "" {
			r = r.With("warn", "careful", 40)
		}
		if c.Query("st") != "" {
			r = r.Status(303)
		}
		if c.Query("input") != "" {
			r = r.WithInput()
		}
		if c.Query("back") != "" {
			// back to where the client came from; without a Referer (and no fallback) that is an error
			return r.Back()
		}
		return r.To("/show")
	})
	app.Get("/show", func(c fiber.Ctx) error { final(c, nil); return c.SendString("shown") })
	app.Get("/fail", func(c fiber.Ctx) error { final(c, nil); return fiber.NewError(418, "teapot") })
	app.Get("/err", func(c fiber.Ctx) error { final(c, nil); return errors.New("plain") })
	app.Get("/panic", func(c fiber.Ctx) error { final(c, nil); panic("handler panic") })
	// a long-lived map of the application, bound on every view request before the per-request variables
	siteVars := fiber.Map{"site": "acme"}
	app.Get("/view", func(c fiber.Ctx) error {
		final(c, nil)
		if c.Query("site") != "" {
			if err := c.ViewBind(siteVars); err != nil {
				return err
			}
		}
		if c.Query("bind") != "" {
			if err := c.ViewBind(fiber.Map{"user": "user-of-" + strings.Clone(c.Get("X-Op")), "role": strings.Clone(c.Query("bind"))}); err != nil {
				return err
			}
		}
		// rendering with no variables of its own (only what was bound before, and locals if the option says so)
		if c.Query("nilbind") != "" {
			name := ksTmplPath
			if c.Query("broken") != "" {
				name = "broken" // the engine fails on it; without an engine there is no such file
			}
			return c.Render(name, nil)
		}
		// no template engine configured: the name is a file path
		return c.Render(ksTmplPath, fiber.Map{"page": "p" + strings.Clone(c.Get("X-Op"))})
	})
	app.Get("/file", func(c fiber.Ctx) error {
		final(c, nil)
		if c.Query("missing") != "" {
			return c.SendFile(ksFilePath + ".does-not-exist")
		}
		if c.Query("ma") != "" || c.Query("dl") != "" {
			return c.SendFile(ksFilePath, fiber.SendFile{MaxAge: fiber.Query[int](c, "ma"), Download: c.Query("dl") != ""})
		}
		return c.SendFile(ksFilePath)
	})
	app.Get("/hdr", func(c fiber.Ctx) error {
		final(c, nil)
		c.Set("X-Custom", "c"+c.Get("X-Op"))
		c.Cookie(&fiber.Cookie{Name: "sess", Value: "s" + c.Get("X-Op")})
		return c.Status(201).SendString("hdr")
	})
	app.Handler()
	return app
}

var flashExpiresRe = regexp.MustCompile(`expires=[^;\n]*`)

func (w *ksWorld) serve(app *fiber.App, conn *harness.Conn, r *ksReq, o *ksObs) string {
	var res string
	func() {
		defer func() {
			if rec := recover(); rec != nil {
				o.panicked = true
				res = "panic"
			}
		}()
		if w.viaAdaptor {
			res = w.serveAdaptor(app, conn, r)
			return
		}
		resp := conn.Do(r.raw)
		hs := resp.HeaderString()
		// old input is collected from a map: the order of the entries inside the flash
		// cookie is not a function of the request, only their multiset is
		if i := strings.Index(hs, "Set-Cookie: fiber_flash="); i >= 0 {
			j := i + strings.IndexByte(hs[i:], '\n')
			// the expiry date of the consumed flash cookie is "now minus a day": a function of the clock
			b := []byte(flashExpiresRe.ReplaceAllString(hs[i:j], "expires=T"))
			sort.Slice(b, func(x, y int) bool { return b[x] < b[y] })
			hs = hs[:i] + "Set-Cookie(fiber_flash, bytes sorted): " + string(b) + hs[j:]
		}
		res = fmt.Sprintf("%d|%s|%q", resp.Status, hs, resp.Body)
		if resp.Unsolicited > 0 {
			// bytes of an earlier exchange that nobody asked for arrived on this connection before the request
			res += fmt.Sprintf("|after %d unsolicited bytes on the connection", resp.Unsolicited)
		}
	}()
	return res
}

// serveAdaptor: the application behind net/http (middleware/adaptor.FiberApp), which brings its own pool of
// fasthttp request contexts.
func (w *ksWorld) serveAdaptor(app *fiber.App, conn *harness.Conn, r *ksReq) string {
	hr, err := http.ReadRequest(bufio.NewReader(bytes.NewReader(r.raw)))
	if err != nil {
		return "not a request net/http accepts"
	}
	hr.RemoteAddr = conn.RemoteIP() + ":40000"
	rec := httptest.NewRecorder()
	var rw http.ResponseWriter = rec
	if w.yield {
		rw = &ksSlowWriter{ResponseRecorder: rec} // a client that takes its time
	}
	adaptor.FiberApp(app)(rw, hr)
	var hs []string
	for k, vs := range rec.Header() {
		for _, v := range vs {
			if k == "Set-Cookie" && strings.HasPrefix(v, "fiber_flash=") {
				b := []byte(flashExpiresRe.ReplaceAllString(v, "expires=T"))
				sort.Slice(b, func(x, y int) bool { return b[x] < b[y] })
				v = "fiber_flash, bytes sorted: " + string(b)
			}
			if k == "Date" {
				continue
			}
			hs = append(hs, k+": "+v)
		}
	}
	sort.Strings(hs)
	return fmt.Sprintf("%d|%s|%q", rec.Code, strings.Join(hs, "\n"), rec.Body.String())
}

// ksSlowWriter: the net/http side may block while the response is written (other requests are served meanwhile).
type ksSlowWriter struct {
	*httptest.ResponseRecorder
}

func (w *ksSlowWriter) WriteHeader(code int) {
	simrt.Yield(710)
	simrt.Sleep(time.Millisecond)
	w.ResponseRecorder.WriteHeader(code)
}

func ksGenerate(s *simrt.Sim, nconn int, flashValid string) []*ksReq {
	n := s.Range(3, harness.Scale(40, 70))
	var out []*ksReq
	vals := []string{"x", "alpha", "a-much-longer-value-to-grow-buffers-0123456789", "", "Zz9", "q%20r", "üñí"}
	val := func() string { return vals[s.Draw(len(vals))] }
	seg := func() string {
		return simrt.PickS(s, "7", "john", "a-very-long-path-segment-abcdefghijklmnopqrstuvwxyz", "Q", "x1")
	}
	for i := 0; i < n; i++ {
		r := &ksReq{id: i, conn: s.Draw(nconn), wire: map[string]string{}}
		method, path, body, ctype := "GET", "/", "", ""
		hdr := [][2]string{{"X-Op", strconv.Itoa(i)}}
		cookie := ""
		switch k := s.Draw(16); k {
		case 13:
			r.kind = "view"
			path = "/view"
			if s.Chance(500) {
				r.kind = "view-bind"
				path = "/view?bind=" + simrt.PickS(s, "admin", "guest")
			}
			if s.Chance(350) {
				sep := "?"
				if strings.Contains(path, "?") {
					sep = "&"
				}
				path += sep + "nilbind=1"
				if s.Chance(400) {
					path += "&broken=1"
				}
			}
			if s.Chance(400) {
				if strings.Contains(path, "?") {
					path += "&site=1"
				} else {
					path += "?site=1"
				}
			}
		case 14:
			r.kind = "file"
			path = "/file?pad=" + strings.Repeat("a", s.Range(0, 120))
			if s.Chance(500) {
				path += "&ma=" + simrt.PickS(s, "60", "86400", "0")
			}
			if s.Chance(200) {
				path += "&dl=1"
			}
			if s.Chance(150) {
				r.kind = "file-missing"
				path += "&missing=1"
			}
		case 15:
			r.kind = "unknown-method"
			method, path = "BREW", "/coffee"
			if s.Chance(500) {
				r.kind = "slow"
				method, path = "GET", "/slow?d="+simrt.PickS(s, "0", "20", "200", "700")
			}
		case 0:
			r.kind = "user"
			a, b := seg(), seg()
			path = "/u/" + a + "/" + b
			r.wire["Params(id)"], r.wire["Params(name)"] = a, b
		case 1:
			r.kind = "user-opt"
			a := seg()
			path = "/u/" + a
			r.wire["Params(id)"] = a
			if s.Chance(350) {
				r.kind = "tenant-item"
				path = "/pm/" + a + "/" + seg() + "/" + seg()
				delete(r.wire, "Params(id)")
				if s.Chance(500) {
					r.kind = "tenant-no-route"
					path = "/pm/" + a + "/" + seg()
				}
			}
		case 2:
			r.kind = "wild"
			a := seg() + "/" + seg()
			path = "/w/" + a
			r.wire["Params(*1)"] = a
		case 3:
			r.kind = "plus"
			a, b := seg(), seg()
			path = "/files/" + a + "/" + b
			r.wire["Params(dir)"], r.wire["Params(+1)"] = a, b
		case 4:
			r.kind = "bind-query"
			path = "/bind?q=" + simrt.PickS(s, "x", "alpha", "Zz9") + "&n=" + strconv.Itoa(s.Draw(100)) + "&l=a&l=b"
			switch s.Draw(4) {
			case 1:
				r.kind = "bind-query-bad"
				path = "/bind?q=x&n=not-a-number"
			case 2:
				r.kind = "bind-auto"
				path = "/bind-auto?q=" + simrt.PickS(s, "x", "alpha") + "&n=" + strconv.Itoa(s.Draw(100))
			case 3:
				r.kind = "bind-auto-bad"
				path = "/bind-auto?q=x&n=not-a-number"
			}
			if s.Chance(200) {
				// valid pairs followed by a key with an unbalanced bracket: binding aborts half way
				r.kind = "bind-query-bracket"
				path = "/bind?q=x&token=SECRET-" + strconv.Itoa(i) + "&filter[=y"
			}
		case 5:
			r.kind = "bind-form"
			method, path = "POST", "/bind"
			body = "f=" + simrt.PickS(s, "x", "alpha", "Zz9") + "&g=" + simrt.PickS(s, "1", "two")
			ctype = "application/x-www-form-urlencoded"
		case 6:
			r.kind = "bind-json"
			method, path = "POST", "/bind"
			body = fmt.Sprintf(`{"name":%q,"age":%d}`, simrt.PickS(s, "ann", "bob-the-builder"), s.Draw(90))
			ctype = "application/json"
			if s.Chance(400) {
				r.kind = "bind-json-generic"
				path = "/bind?generic=1"
				ctype = simrt.PickS(s, "Application/JSON; charset=UTF-8", "application/json", "APPLICATION/JSON")
			}
		case 7:
			r.kind = "redirect"
			method, path = "POST", "/go?m="+simrt.PickS(s, "done", "saved", "x")
			if s.Chance(500) {
				path += "&lvl=1"
			}
			if s.Chance(500) {
				path += "&input=1"
			}
			if s.Chance(300) {
				path += "&st=303"
			}
			if s.Chance(200) {
				r.kind = "redirect-back"
				path += "&back=1"
				if s.Chance(400) {
					hdr = append(hdr, [2]string{"Referer", "http://example.com/from/" + strconv.Itoa(i)})
				}
			}
		case 8:
			r.kind = "show"
			path = "/show"
			switch s.Draw(4) {
			case 1:
				r.kind = "show-valid-flash"
				cookie = "fiber_flash=" + flashValid
			case 2:
				r.kind = "show-truncated-flash"
				if len(flashValid) > 2 {
					cookie = "fiber_flash=" + flashValid[:s.Range(1, len(flashValid)-1)]
				}
			case 3:
				r.kind = "show-forged-flash"
				// junk, over-announced arrays, and well-formed arrays of maps with missing fields
				cookie = "fiber_flash=" + simrt.PickS(s, "AAAA", "\x95\xa1a", "zzz", "\x93", "\x92\x80\x80", "\x91\x81\xa3key\xa2zz", "\x93\x80\x81\xa5value\xa1v\x80")
			}
		case 9:
			r.kind = simrt.PickS(s, "fail", "err", "panic")
			path = "/" + r.kind
		case 10:
			r.kind = "hdr"
			path = "/hdr"
			hdr = append(hdr, [2]string{"X-SetHdr", "1"})
		case 11:
			r.kind = "notfound"
			path = "/nothing/" + seg()
			if s.Chance(400) {
				r.kind = "notfound-valid-flash"
				cookie = "fiber_flash=" + flashValid
			}
			if s.Chance(500) {
				r.kind = "wrong-method"
				method, path = "DELETE", "/u/"+seg()
			}
		case 12:
			r.kind = "malformed"
		}
		if r.kind == "malformed" {
			r.raw = []byte(simrt.PickS(s, "GET / HTTP/1.1\r\nHost\r\n\r\n", "G\x00T /x HTTP/1.1\r\n\r\n", "GET /u/1 HTTP/9.9\r\nHost: a\r\n\r\n", "POST /bind HTTP/1.1\r\nHost: a\r\nContent-Length: 99999999999\r\n\r\n"))
			out = append(out, r)
			continue
		}
		if !strings.Contains(path, "?") && s.Chance(400) {
			path += "?q=" + simrt.PickS(s, "x", "alpha", "Zz9")
		}
		a := val()
		if a != "" && !strings.ContainsAny(a, "%üñí ") {
			hdr = append(hdr, [2]string{"X-A", a})
			r.wire["Get(X-A)"] = a
		}
		if s.Chance(300) {
			hdr = append(hdr, [2]string{"X-B", "b" + strconv.Itoa(i)})
			if s.Chance(400) {
				hdr = append(hdr, [2]string{"X-B", "second-b" + strconv.Itoa(i)}) // the same field twice
			}
		}
		if cookie == "" && s.Chance(400) {
			cookie = "a=" + simrt.PickS(s, "c1", "cookie-value-long-0123456789")
		}
		if cookie != "" {
			hdr = append(hdr, [2]string{"Cookie", cookie})
		}
		if ctype != "" {
			hdr = append(hdr, [2]string{"Content-Type", ctype})
		}
		encodeTwice := false
		if body != "" && s.Chance(250) {
			hdr = append(hdr, [2]string{"Content-Encoding", "identity"}) // a token no decoder handles: the body is used as is
		} else if body != "" && s.Chance(200) {
			encodeTwice = true
			hdr = append(hdr, [2]string{"Content-Encoding", "gzip, deflate"})
		}
		if s.Chance(300) {
			hdr = append(hdr, [2]string{"Accept", simrt.PickS(s, "text/html", "application/json", "*/*;q=0.1, text/html",
				"application/xml;v=1, text/html", "text/plain;format=flowed, application/json;version=2", "text/plain;format=flowed;q=0.5, application/json;version=2;q=0.9, text/html;level=1")})
		}
		if s.Chance(200) {
			hdr = append(hdr, [2]string{"User-Agent", "ua-" + strconv.Itoa(i)})
		}
		if s.Chance(120) {
			hdr = append(hdr, [2]string{"X-Rewrite", "1"})
		}
		if s.Chance(150) {
			hdr = append(hdr, [2]string{"X-Forwarded-Proto", simrt.PickS(s, "https", "http")})
		}
		if s.Chance(200) {
			hdr = append(hdr, [2]string{"X-Forwarded-For", simrt.PickS(s, "203.0.113.7", "198.51.100.23, 10.0.0.1", "2001:db8::1", "not-an-ip, 192.0.2.44")})
		}
		host := simrt.PickS(s, "example.com", "sub.example.com", "a.b.example.org:8080")
		r.wire["Host"] = host
		xfp := ""
		for _, h := range hdr {
			if h[0] == "X-Forwarded-Proto" {
				xfp = h[1]
			}
		}
		if xfp == "" {
			r.wire["BaseURL"] = "http://" + host // (TrustProxy is off: a forwarded scheme plays no part)
		}
		r.wire["Body"] = body
		if body != "" && encodeTwice {
			// compressed twice: the context decodes step by step and has to put the raw body back afterwards
			var inner, outer bytes.Buffer
			zw := zlib.NewWriter(&inner)
			_, _ = zw.Write([]byte(body))
			_ = zw.Close()
			gw := gzip.NewWriter(&outer)
			_, _ = gw.Write(inner.Bytes())
			_ = gw.Close()
			body = outer.String()
			r.wire["BodyRaw"] = body
		}
		r.raw = harness.Req{Method: method, Path: path, Host: host, Headers: hdr, Body: []byte(body)}.Bytes()
		out = append(out, r)
	}
	return out
}

func ksRun(s *simrt.Sim, info *harness.RunInfo, immutMode bool) {
	cfg := fiber.Config{CaseSensitive: s.Chance(300), StrictRouting: s.Chance(300), UnescapePath: s.Chance(300)}
	if s.Chance(400) {
		cfg.ProxyHeader = "X-Forwarded-For"
		cfg.EnableIPValidation = s.Chance(600)
	}
	if immutMode {
		cfg.Immutable = !s.Chance(300)
	} else {
		cfg.Immutable = s.Chance(300)
	}
	nconn := s.Range(1, harness.Scale(4, 6))
	preempt := simrt.PickS(s, 150, 0, 50, 400)
	// transport: direct handler calls on a recycled RequestCtx, or fasthttp's real connection loop
	// over a simulated connection (then also with streamed request bodies / eager buffer release)
	netw := harness.ChooseTransport(s, 350)
	if netw.Enabled {
		cfg.StreamRequestBody = s.Chance(400)
		cfg.ReduceMemoryUsage = s.Chance(250)
		s.Count("probe_real_connection_loop")
		if cfg.StreamRequestBody {
			s.Count("probe_streamed_request_bodies")
		}
	}
	viaAdaptor := !netw.Enabled && !immutMode && s.Chance(120)
	cfgLine := fmt.Sprintf("adaptor=%v ", viaAdaptor) + fmt.Sprintf("immutMode=%v immutable=%v caseSensitive=%v strict=%v unescape=%v proxyHeader=%q ipValidation=%v conns=%d preempt=%d net=%+v stream=%v reducemem=%v", immutMode, cfg.Immutable, cfg.CaseSensitive, cfg.StrictRouting, cfg.UnescapePath, cfg.ProxyHeader, cfg.EnableIPValidation, nconn, preempt, netw, cfg.StreamRequestBody, cfg.ReduceMemoryUsage)
	ksFiles()
	if viaAdaptor {
		s.Count("probe_application_behind_net_http_adaptor")
	}
	w := &ksWorld{s: s, viaAdaptor: viaAdaptor, immutMode: immutMode, immutable: cfg.Immutable, globalMW: !s.Chance(300), customEH: s.Chance(400), customCtx: s.Chance(250)}
	if s.Chance(300) {
		cfg.Views = ksViews{}
		cfg.PassLocalsToViews = s.Chance(500)
	}
	w.wireCheck = !cfg.UnescapePath && cfg.CaseSensitive
	cfgLine += fmt.Sprintf(" globalMW=%v customEH=%v customCtx=%v views=%v passLocals=%v", w.globalMW, w.customEH, w.customCtx, cfg.Views != nil, cfg.PassLocalsToViews)
	s.Logf("cfg %s", cfgLine)
	// a valid flash cookie value, as a server issues it
	flashValid := ""
	{
		s.ResetPools()
		w.obsOf = func(int) *ksObs { return nil }
		app := w.build(cfg)
		resp := harness.NewConn(app, "10.0.0.9").Do(harness.Req{Method: "POST", Path: "/go?m=hello&lvl=1", Headers: [][2]string{{"X-Op", "0"}}}.Bytes())
		for _, sc := range resp.Header["Set-Cookie"] {
			if strings.HasPrefix(sc, "fiber_flash=") {
				flashValid = strings.SplitN(strings.TrimPrefix(sc, "fiber_flash="), ";", 2)[0]
			}
		}
	}
	w.reqs = ksGenerate(s, nconn, flashValid)

	// 1. reference world: every request on a brand-new app with empty pools
	if !immutMode {
		for _, r := range w.reqs {
			s.ResetPools()
			r.ref = &ksObs{}
			w.obsOf = func(id int) *ksObs {
				if id != r.id {
					return nil // e.g. a half-valid request without the X-Op header
				}
				return r.ref
			}
			app := w.build(cfg)
			rc := harness.NewConn(app, "10.0.0."+strconv.Itoa(r.conn+1))
			r.refRes = w.serve(app, rc, r, r.ref)
			rc.Close()
		}
	}
	// 2. the history, concurrently, on one application
	s.ResetPools()
	w.yield = true
	w.obsOf = func(id int) *ksObs {
		if id < 0 || id >= len(w.reqs) {
			return nil
		}
		return w.reqs[id].got
	}
	app := w.build(cfg)
	s.SetPreempt(preempt)
	var wg sync.WaitGroup
	for ci := 0; ci < nconn; ci++ {
		wg.Add(1)
		simrt.GoNamed("conn"+strconv.Itoa(ci), func() {
			defer wg.Done()
			conn := harness.NewConn(app, "10.0.0."+strconv.Itoa(ci+1))
			for _, r := range w.reqs {
				if r.conn != ci {
					continue
				}
				r.got = &ksObs{}
				s.Logf("req%d conn%d %s %q", r.id, ci, r.kind, firstLineOf(r.raw))
				r.gotRes = w.serve(app, conn, r, r.got)
				if w.immutMode && w.immutable {
					w.checkKept(fmt.Sprintf("after request %d (%s) on connection %d", r.id, r.kind, ci))
				}
			}
		})
	}
	join(&wg)
	s.SetPreempt(0)
	if w.immutMode && w.immutable {
		w.checkKept("at the end of the run")
		// and equal to what was put on the wire
		for _, k := range w.kept {
			if want, ok := w.reqs[k.req].wire[k.accessor]; ok && !cfg.UnescapePath && cfg.CaseSensitive {
				if k.copy != want && !strings.HasPrefix(k.accessor, "Params") {
					s.Fail("C06.value."+accName(k.accessor), "request %d: %s returned %q, the request carried %q", k.req, k.accessor, k.copy, want)
				}
			}
		}
	}
	h := newHasher().str(cfgLine)
	reuse := false
	lastKind := map[int]string{}
	for _, r := range w.reqs {
		h.int(r.conn).str(r.kind).int(len(r.raw))
		if lk, ok := lastKind[r.conn]; ok && lk != r.kind {
			reuse = true
		}
		lastKind[r.conn] = r.kind
	}
	if !immutMode {
		for _, r := range w.reqs {
			if r.got == nil || r.ref == nil {
				continue
			}
			if r.got.panicked != r.ref.panicked || r.got.reached != r.ref.reached {
				s.Fail("C05.reached", "request %d (%s): reached handler=%v panicked=%v, on a fresh app reached=%v panicked=%v", r.id, r.kind, r.got.reached, r.got.panicked, r.ref.reached, r.ref.panicked)
				continue
			}
			for _, pair := range []struct {
				where    string
				got, ref map[string]string
			}{{"middleware entry", r.got.mw, r.ref.mw}, {"handler", r.got.h, r.ref.h}, {"error handler", r.got.eh, r.ref.eh}} {
				keys := map[string]bool{}
				for k := range pair.got {
					keys[k] = true
				}
				for k := range pair.ref {
					keys[k] = true
				}
				ks := make([]string, 0, len(keys))
				for k := range keys {
					ks = append(ks, k)
				}
				sort.Strings(ks)
				for _, k := range ks {
					if pair.got[k] != pair.ref[k] {
						s.Fail("C05.observe."+accName(k), "request %d (%s, connection %d) at %s: %s = %q, on a fresh application %q", r.id, r.kind, r.conn, pair.where, k, pair.got[k], pair.ref[k])
						break
					}
				}
			}
			if r.gotRes != r.refRes {
				s.Fail("C05.response", "request %d (%s, connection %d): response %s, on a fresh application %s", r.id, r.kind, r.conn, r.gotRes, r.refRes)
			}
		}
	}
	if reuse {
		s.Count("probe_context_reused_by_other_kind")
	}
	for _, r := range w.reqs {
		switch {
		case strings.HasPrefix(r.kind, "view") && strings.HasPrefix(r.gotRes, "200|") && strings.Contains(r.gotRes, "page=p"):
			s.Count("probe_view_rendered_with_bindings")
		case r.kind == "file" && strings.HasPrefix(r.gotRes, "200|"):
			s.Count("probe_file_sent")
		case r.kind == "unknown-method" && strings.HasPrefix(r.gotRes, "501|"):
			s.Count("probe_unknown_method_501")
		case r.kind == "show-valid-flash" && r.got != nil && r.got.h["Messages"] != "":
			s.Count("probe_flash_messages_delivered")
		}
	}
	info.StateHash = h.h
	info.Nontrivial = reuse
	info.Sample = map[string]any{"config": cfgLine, "requests": len(w.reqs)}
}

func firstLineOf(b []byte) string {
	s := string(b)
	if i := strings.Index(s, "\r\n"); i >= 0 {
		s = s[:i]
	}
	if len(s) > 80 {
		s = s[:80]
	}
	return s
}

func isoMain(s *simrt.Sim, info *harness.RunInfo)   { ksRun(s, info, false) }
func immutMain(s *simrt.Sim, info *harness.RunInfo) { ksRun(s, info, true) }
