package engines

import (
	"hash/fnv"
	"strconv"
	"sync"

	"verif.local/sim/simrt"
)

type hasher struct{ h uint64 }

func newHasher() *hasher { return &hasher{14695981039346656037} }

func (h *hasher) str(s string) *hasher {
	f := fnv.New64a()
	var b [8]byte
	for i := 0; i < 8; i++ {
		b[i] = byte(h.h >> (8 * i))
	}
	f.Write(b[:])
	f.Write([]byte(s))
	h.h = f.Sum64()
	return h
}

func (h *hasher) int(v int) *hasher { return h.str(strconv.Itoa(v)) }

// join waits for a WaitGroup created inside the bubble and takes the token back.
func join(wg *sync.WaitGroup) {
	wg.Wait()
	simrt.Resume(5)
}

func atoi(s string) int {
	n, err := strconv.Atoi(s)
	if err != nil {
		return -1 << 30
	}
	return n
}
