package engines

import (
	"bytes"
	"encoding/base64"
	"encoding/hex"
	"errors"
	"fmt"
	"net/url"
	"os"
	"reflect"
	"runtime"
	"sort"
	"strconv"
	"strings"
	"time"

	"github.com/gofiber/fiber/v3"
	"github.com/valyala/fasthttp"

	"verif.local/sim/harness"
	"verif.local/sim/simrt"
)

// C12 — flash messages and old input carried by a redirect (DESIGN.md 3.4).
//
// Every exchange crosses the wire as bytes. Three client tiers look at the
// Set-Cookie the redirect wrote:
//   strict   net/http (harness.Browser): RFC 6265 sec. 4.1 grammar
//   lenient  RFC 6265 sec. 5 user-agent algorithm on the raw wire bytes
//            (value up to ';', surrounding blanks trimmed, cookies with control
//            bytes ignored as RFC 6265bis and current browsers do)
// If the strict client cannot take the cookie that is a finding of its own; the
// run goes on with the lenient client so that delivery, expiry and the hostile
// cookie oracles are still evaluated. If the lenient client cannot take it
// either, that is a finding and the browser simply has no cookie.

func init() {
	harness.Register(&harness.Engine{
		Name: "flash", Property: "C12", Level: "exploration",
		Main:       flashMain,
		MaxSimTime: 40 * 365 * 24 * time.Hour,
		Rule: "per run the tape draws 1-3 browsers (cookie stores fed by net/http from the raw response bytes; optional unrelated cookies around fiber_flash), an alphabet (plain / punctuation , : ; \" = % space / control bytes + non-ASCII + invalid UTF-8 / all), a level mode (none / wire-safe / 0-255), pool drop rate and 2-24 sequential steps interleaved over the browsers: " +
			"POST /go (0-5 With(k,v[,level]) incl. repeated keys, optional WithInput from urlencoded form / query / multipart data, To or Route), GET /show, GET /plain (handler may ignore the messages), GET /nest (handler serves another browser's step while its context is live), GET /hop and /hop2 (consume, then redirect again without / with new messages), consumers below the root (/account/show, /account/plain, /a/b/hop, /a/b/hop2: cookies are scoped by path in both client tiers), consumers that fail after reading (fiber.NewError 503 / 500, plain error, 404 / 409), requests whose headers only mention the cookie name; " +
			"fault stratum: the stored cookie is truncated to a drawn length, has bytes flipped or appended, or is replaced by crafted MessagePack (well-formed lists with old inputs, array headers announcing more elements than present up to 2^32-1, maps with missing / unknown / mistyped fields, nested junk); " +
			"distinct = hash of (configuration, per step (browser, kind, client tier, cookie class, outcome class)); non-trivial = at least one attached message set was observed by a follow-up handler over the wire, or a hostile cookie reached the decoder. " +
			"The simulated clock is advanced to 2026 before the workload (26 simulated years per run are idle time).",
		Assumptions: []string{
			"a conforming client is net/http's response and Set-Cookie parser plus RFC 6265 storage rules (harness.Browser); when it cannot take the cookie the run continues with an RFC 6265 sec. 5 / 6265bis user agent working on the raw wire bytes, and findings name the tier",
			"the encoding is a MessagePack array of maps {key,value,level,isOldInput} (redirect_msgp.go), raw or armoured with base64 / hex; 'not well-formed' = no complete valid MessagePack encoding of such a list under any of these (truncated, wrong top-level / element type, mistyped known field); lists with missing, unknown or duplicate fields, nil / bin / signed variants or trailing bytes are a grey class for which only 'no data of other requests' is demanded",
			"repeated With(key) may either replace the earlier message or add one: both readings are accepted",
			"cost proportional to the length is checked as bytes allocated while serving the request (runtime.MemStats.TotalAlloc, single running task, GC off) < 64 KiB + 64*len(cookie); time is not measured",
			"hostile cookie bytes are restricted to what an HTTP/1.1 header can carry to the application (fasthttp rejects control bytes in header values with 400 before fiber runs; ';' and surrounding blanks belong to the Cookie header syntax)",
			"the simulated clock is advanced to 2026-01-01 before the workload: fasthttp expires client cookies with a fixed Expires date in 2009, which only a present-day client treats as past",
			"requests are at most ~3.5 kB (one 4 kB read buffer as in fasthttp's default configuration)",
		},
		Components: map[string]string{
			"fiber App, router, DefaultCtx, Redirect, msgp codec, binder": "real (instrumented)",
			"fasthttp request / response codecs, cookie writer":           "real",
			"fasthttp accept loop / worker pool":                          "stub (harness.Conn, one keep-alive connection per browser)",
			"client: response parser, Set-Cookie parser":                  "net/http (independent, strict) + RFC 6265 sec. 5 parser of the engine on the raw bytes",
			"client cookie store":                                         "stub harness.Browser (RFC 6265 Max-Age / Expires on the simulated clock)",
			"sync.Pool":                                                   "simulated by simrt (seeded choice among released objects, seeded drops)",
			"reference MessagePack reader / writer for cookie classes":    "engine (independent of tinylib/msgp)",
		},
	})
}

// ---------------------------------------------------------------------------------------------
// data

type flashMsg struct {
	Key, Value string
	Level      uint8
	Old        bool
}

func (m flashMsg) String() string {
	if m.Old {
		return fmt.Sprintf("input{%q=%q}", m.Key, m.Value)
	}
	return fmt.Sprintf("msg{%q=%q level %d}", m.Key, m.Value, m.Level)
}

func flashList(ms []flashMsg) string {
	var b strings.Builder
	b.WriteString("[")
	for i, m := range ms {
		if i == 6 {
			fmt.Fprintf(&b, " ... %d more", len(ms)-i)
			break
		}
		if i > 0 {
			b.WriteString(" ")
		}
		s := m.String()
		if len(s) > 90 {
			s = s[:90] + "…"
		}
		b.WriteString(s)
	}
	b.WriteString("]")
	return b.String()
}

func flashMultiset(ms []flashMsg) string {
	keys := make([]string, 0, len(ms))
	for _, m := range ms {
		if m.Old {
			m.Level = 0 // old input carries no level
		}
		keys = append(keys, fmt.Sprintf("%v|%q|%q|%d", m.Old, m.Key, m.Value, m.Level))
	}
	sort.Strings(keys)
	return strings.Join(keys, "\x00")
}

type flashProbe struct {
	key string
	m   fiber.FlashMessage
	o   fiber.OldInputData
}

type flashOp struct {
	id      int
	browser int
	kind    string // go | show | plain | nest | hop | hop2
	path    string
	// go
	with         []flashMsg
	hasLevel     []bool
	inputs       []flashMsg
	inputMode    int // 0 none, 1 urlencoded form, 2 query, 3 multipart
	route        bool
	routeQueries bool // Route() with RedirectConfig.Queries
	twoStage     bool // With, To, With ..., To in one request
	status       int
	failCode     int    // consumer: after recording the messages the handler fails: 0 no, -1 plain error, else *fiber.Error code
	srvCookie    string // the serialised cookie as the server put it into the response header
	// any
	read      bool
	probeKeys []string
	nested    func()
	// observed by the handler
	ran    bool
	cookie string
	msgs   []flashMsg
	probes []flashProbe
}

type flashHostile struct {
	desc   string
	value  string // cookie value as stored in the browser
	bomb   int    // announced element count of a crafted header (0 = none)
	baseOp *flashOp
}

type flashBrowserState struct {
	pending *flashOp      // the stored cookie is the one this redirect issued, untouched
	tier    string        // strict | lenient
	hostile *flashHostile // the stored cookie was corrupted / crafted
	after   bool          // the previous request consumed a cookie
}

type flashRun struct {
	s        *simrt.Sim
	app      *fiber.App
	nb       int
	faults   bool
	alpha    int
	levels   int
	browsers []*harness.Browser
	conns    []*harness.Conn
	st       []*flashBrowserState
	ops      []*flashOp
	reported map[string]bool
	h        *hasher
	history  map[string]bool // strings that travelled in earlier cookies
	armour   int             // how issued cookies are armoured (index into flashArmours), -1 unknown
	bombStop bool            // a crafted element count already broke the allocation bound
	nDeliver int
	nHostile int
	dead     bool
}

const flashName = fiber.FlashCookieName

func (r *flashRun) fail(id, format string, args ...any) {
	if r.reported[id] {
		r.s.Logf("again %s %s", id, fmt.Sprintf(format, args...))
		return
	}
	r.reported[id] = true
	r.s.Fail(id, format, args...)
}

// ---------------------------------------------------------------------------------------------
// generation

var (
	flashPlain = []string{"a", "b", "c", "k", "m", "x", "y", "z", "0", "1", "7", "Q", "_", "-"}
	flashPunct = []string{",", ":", ";", "\"", "=", "%", " ", "%3B", "\\", "'", "&", "+", "/"}
	flashOdd   = []string{"\x00", "\x01", "\t", "\n", "\r", "\r\n", "\x1b", "\x7f", "é", "日本", "😀", "\xff", "\xc0\xaf", " "}
)

func (r *flashRun) str(budget *int) string {
	s := r.s
	n := simrt.PickS(s, 2, 1, 3, 5, 8, 0, 14, 40, 300)
	if n == 300 {
		n = s.Range(60, 520)
	}
	if n > *budget {
		n = *budget
	}
	mode := 0
	if r.alpha > 0 && s.Chance(750) {
		mode = r.alpha
	}
	var b strings.Builder
	for b.Len() < n {
		var set []string
		switch mode {
		case 0:
			set = flashPlain
		case 1:
			set = simrt.PickS(s, flashPunct, flashPlain)
		case 2:
			set = simrt.PickS(s, flashOdd, flashPlain)
		default:
			set = simrt.PickS(s, flashPunct, flashOdd, flashPlain)
		}
		b.WriteString(set[s.Draw(len(set))])
	}
	*budget -= b.Len()
	if *budget < 0 {
		*budget = 0
	}
	return b.String()
}

// wireSafeLevel: a level whose MessagePack bytes are neither control bytes nor ';'
func flashSafeLevel(d int) uint8 {
	var safe []uint8
	for v := 0x20; v <= 0xff; v++ {
		if v == 0x3b || v == 0x7f {
			continue
		}
		safe = append(safe, uint8(v))
	}
	return safe[d%len(safe)]
}

func (r *flashRun) level() (uint8, bool) {
	s := r.s
	switch r.levels {
	case 0:
		if s.Chance(150) {
			return flashSafeLevel(s.Draw(222)), true
		}
		return 0, false
	case 1:
		return flashSafeLevel(s.Draw(222)), true
	default:
		if s.Chance(100) {
			return 0, false
		}
		return uint8(s.Draw(256)), true
	}
}

func (r *flashRun) genGo(op *flashOp) {
	s := r.s
	budget := 1200
	r.genWith(op, simrt.PickS(s, 1, 2, 3, 0, 5), &budget)
	if s.Chance(300) {
		op.inputMode = s.Range(1, 3)
		ni := s.Range(0, 3)
		for i := 0; i < ni; i++ {
			k := "f" + strconv.Itoa(i) + flashPlain[s.Draw(len(flashPlain)-2)]
			ib := 100
			op.inputs = append(op.inputs, flashMsg{Key: k, Value: r.str(&ib), Old: true})
		}
	}
	if len(op.inputs) > 0 && len(op.with) > 0 && s.Chance(300) {
		// a message keyed like a submitted field (a validation error next to the old input of that field):
		// messages and old input are separate things
		op.with[len(op.with)-1].Key = op.inputs[s.Draw(len(op.inputs))].Key
	}
	op.route = s.Chance(250)
	op.routeQueries = op.route && s.Chance(500)
	op.twoStage = s.Chance(120)
	op.status = simrt.PickS(s, 0, 303, 301, 307)
}

func (r *flashRun) genWith(op *flashOp, n int, budgetp *int) {
	s := r.s
	budget := *budgetp
	defer func() { *budgetp = budget }()
	for i := 0; i < n; i++ {
		m := flashMsg{Key: r.str(&budget), Value: r.str(&budget)}
		if i > 0 && s.Chance(150) {
			m.Key = op.with[s.Draw(len(op.with))].Key // repeated key
		}
		lv, has := r.level()
		m.Level = lv
		op.with = append(op.with, m)
		op.hasLevel = append(op.hasLevel, has)
	}
}

// ---------------------------------------------------------------------------------------------
// expectations

// flashExpected returns the acceptable observations for a redirect: repeated
// keys either replace (first position, last value) or accumulate.
func flashExpected(op *flashOp) [][]flashMsg {
	var repl, all []flashMsg
	dup := false
	for _, m := range op.with {
		all = append(all, m)
		found := false
		for i := range repl {
			if repl[i].Key == m.Key {
				repl[i].Value, repl[i].Level = m.Value, m.Level
				found, dup = true, true
				break
			}
		}
		if !found {
			repl = append(repl, m)
		}
	}
	repl = append(repl, op.inputs...)
	all = append(all, op.inputs...)
	if dup {
		return [][]flashMsg{repl, all}
	}
	return [][]flashMsg{all}
}

func flashMatches(obs []flashMsg, alts [][]flashMsg) bool {
	o := flashMultiset(obs)
	for _, a := range alts {
		if o == flashMultiset(a) {
			return true
		}
	}
	return false
}

// checkProbes: Message(k) / OldInput(k) must agree with the list the handler saw.
func (r *flashRun) checkProbes(op *flashOp, what string) {
	for _, p := range op.probes {
		var wantM, wantO []flashMsg
		for _, m := range op.msgs {
			if m.Key == p.key {
				if m.Old {
					wantO = append(wantO, m)
				} else {
					wantM = append(wantM, m)
				}
			}
		}
		okM := len(wantM) == 0 && p.m == fiber.FlashMessage{}
		for _, m := range wantM {
			if p.m.Key == m.Key && p.m.Value == m.Value && p.m.Level == m.Level {
				okM = true
			}
		}
		okO := len(wantO) == 0 && p.o == fiber.OldInputData{}
		for _, m := range wantO {
			if p.o.Key == m.Key && p.o.Value == m.Value {
				okO = true
			}
		}
		if !okM {
			r.fail("C12.deliver-by-key", "op%d %s: Message(%q) returned {%q %q %d} but Messages()/OldInputs() in the same handler returned %s", op.id, what, p.key, p.m.Key, p.m.Value, p.m.Level, flashList(op.msgs))
		}
		if !okO {
			r.fail("C12.deliver-by-key", "op%d %s: OldInput(%q) returned {%q %q} but Messages()/OldInputs() in the same handler returned %s", op.id, what, p.key, p.o.Key, p.o.Value, flashList(op.msgs))
		}
	}
}

// ---------------------------------------------------------------------------------------------
// reference MessagePack reader (independent of tinylib/msgp)

type flashMP struct {
	b    []byte
	i    int
	neg  bool
	deep bool
}

// tok reads one object header. kinds: a array, m map, s str, b bin, e ext,
// u unsigned-format int, i signed-format int, f float, t bool, n nil.
// For s/b/e the payload (v bytes) is still to be read.
func (r *flashMP) tok() (k byte, v uint64, ok bool) {
	if r.i >= len(r.b) {
		return 0, 0, false
	}
	c := r.b[r.i]
	r.i++
	r.neg = false
	be := func(n int) (uint64, bool) {
		if r.i+n > len(r.b) {
			return 0, false
		}
		var x uint64
		for j := 0; j < n; j++ {
			x = x<<8 | uint64(r.b[r.i+j])
		}
		r.i += n
		return x, true
	}
	switch {
	case c <= 0x7f:
		return 'u', uint64(c), true
	case c <= 0x8f:
		return 'm', uint64(c & 0x0f), true
	case c <= 0x9f:
		return 'a', uint64(c & 0x0f), true
	case c <= 0xbf:
		return 's', uint64(c & 0x1f), true
	case c >= 0xe0:
		r.neg = true
		return 'i', uint64(int64(int8(c))), true
	}
	switch c {
	case 0xc0:
		return 'n', 0, true
	case 0xc2:
		return 't', 0, true
	case 0xc3:
		return 't', 1, true
	case 0xc4, 0xc5, 0xc6:
		v, ok = be(1 << (c - 0xc4))
		return 'b', v, ok
	case 0xc7, 0xc8, 0xc9:
		v, ok = be(1 << (c - 0xc7))
		return 'e', v + 1, ok
	case 0xca:
		_, ok = be(4)
		return 'f', 0, ok
	case 0xcb:
		_, ok = be(8)
		return 'f', 0, ok
	case 0xcc, 0xcd, 0xce, 0xcf:
		v, ok = be(1 << (c - 0xcc))
		return 'u', v, ok
	case 0xd0, 0xd1, 0xd2, 0xd3:
		n := 1 << (c - 0xd0)
		v, ok = be(n)
		if ok {
			sh := uint(64 - 8*n)
			sv := int64(v<<sh) >> sh
			r.neg = sv < 0
			v = uint64(sv)
		}
		return 'i', v, ok
	case 0xd4, 0xd5, 0xd6, 0xd7, 0xd8:
		return 'e', uint64(1<<(c-0xd4)) + 1, true
	case 0xd9, 0xda, 0xdb:
		v, ok = be(1 << (c - 0xd9))
		return 's', v, ok
	case 0xdc, 0xdd:
		v, ok = be(2 << (c - 0xdc))
		return 'a', v, ok
	case 0xde, 0xdf:
		v, ok = be(2 << (c - 0xde))
		return 'm', v, ok
	}
	return 0, 0, false // 0xc1
}

func (r *flashMP) payload(n uint64) (string, bool) {
	if n > uint64(len(r.b)-r.i) {
		return "", false
	}
	s := string(r.b[r.i : r.i+int(n)])
	r.i += int(n)
	return s, true
}

func (r *flashMP) skip(depth int) bool {
	if depth > 32 {
		r.deep = true
		return false
	}
	k, v, ok := r.tok()
	if !ok {
		return false
	}
	switch k {
	case 's', 'b', 'e':
		_, ok = r.payload(v)
		return ok
	case 'a', 'm':
		if k == 'm' {
			if v > uint64(len(r.b)) {
				return false
			}
			v *= 2
		}
		if v > uint64(len(r.b)-r.i) {
			return false
		}
		for j := uint64(0); j < v; j++ {
			if !r.skip(depth + 1) {
				return false
			}
		}
	}
	return true
}

const (
	flashN  = iota // not a well-formed encoding of a message list
	flashQ         // complete MessagePack list of maps, but outside the plain schema (grey)
	flashQM        // as W but some maps lack fields
	flashW         // well-formed: every map has exactly the four fields with the right types
)

var flashClassName = map[int]string{flashN: "malformed", flashQ: "grey", flashQM: "missing-fields", flashW: "well-formed"}

// flashRefDecode classifies raw MessagePack bytes and decodes W / QM lists.
func flashRefDecode(b []byte) (class int, msgs []flashMsg, why string) {
	r := &flashMP{b: b}
	k, n, ok := r.tok()
	if !ok {
		return flashN, nil, "no complete array header"
	}
	if k != 'a' {
		return flashN, nil, "top-level object is not an array"
	}
	if n > uint64(len(b)-r.i) {
		return flashN, nil, fmt.Sprintf("array header announces %d elements, %d bytes follow", n, len(b)-r.i)
	}
	quirk, missing := "", false
	for e := uint64(0); e < n; e++ {
		k, m, ok := r.tok()
		if !ok {
			return flashN, nil, fmt.Sprintf("element %d of %d: input ends", e, n)
		}
		if k == 'n' {
			quirk = "nil element"
			msgs = append(msgs, flashMsg{})
			continue
		}
		if k != 'm' {
			return flashN, nil, fmt.Sprintf("element %d is not a map", e)
		}
		if m > uint64(len(b)-r.i) {
			return flashN, nil, fmt.Sprintf("element %d: map header announces %d fields, %d bytes follow", e, m, len(b)-r.i)
		}
		var msg flashMsg
		seen := map[string]bool{}
		for f := uint64(0); f < m; f++ {
			kk, l, ok := r.tok()
			if !ok {
				return flashN, nil, fmt.Sprintf("element %d: input ends inside the map", e)
			}
			if kk == 'b' {
				quirk = "bin field name"
			} else if kk != 's' {
				return flashN, nil, fmt.Sprintf("element %d: field name is not a string", e)
			}
			name, ok := r.payload(l)
			if !ok {
				return flashN, nil, fmt.Sprintf("element %d: input ends inside a field name", e)
			}
			if seen[name] {
				quirk = "duplicate field " + name
			}
			seen[name] = true
			switch name {
			case "key", "value":
				tk, tv, ok := r.tok()
				if !ok {
					return flashN, nil, fmt.Sprintf("element %d: input ends at %s", e, name)
				}
				var sv string
				switch tk {
				case 's', 'b':
					if sv, ok = r.payload(tv); !ok {
						return flashN, nil, fmt.Sprintf("element %d: input ends inside %s", e, name)
					}
					if tk == 'b' {
						quirk = name + " is bin"
					}
				case 'n':
					quirk = name + " is nil"
				default:
					return flashN, nil, fmt.Sprintf("element %d: %s is not a string", e, name)
				}
				if name == "key" {
					msg.Key = sv
				} else {
					msg.Value = sv
				}
			case "level":
				tk, tv, ok := r.tok()
				if !ok {
					return flashN, nil, fmt.Sprintf("element %d: input ends at level", e)
				}
				switch tk {
				case 'u', 'i':
					if r.neg || tv > 255 {
						return flashN, nil, fmt.Sprintf("element %d: level out of range", e)
					}
					if tk == 'i' {
						quirk = "level in a signed format"
					}
					msg.Level = uint8(tv)
				case 'f', 'n':
					quirk = "level is float/nil"
				default:
					return flashN, nil, fmt.Sprintf("element %d: level is not a number", e)
				}
			case "isOldInput":
				tk, tv, ok := r.tok()
				if !ok {
					return flashN, nil, fmt.Sprintf("element %d: input ends at isOldInput", e)
				}
				switch tk {
				case 't':
					msg.Old = tv == 1
				case 'n':
					quirk = "isOldInput is nil"
				default:
					return flashN, nil, fmt.Sprintf("element %d: isOldInput is not a bool", e)
				}
			default:
				quirk = "unknown field"
				if !r.skip(0) {
					if r.deep {
						return flashQ, nil, "nesting deeper than 32"
					}
					return flashN, nil, fmt.Sprintf("element %d: value of unknown field %q is incomplete or invalid", e, name)
				}
			}
		}
		if !(seen["key"] && seen["value"] && seen["level"] && seen["isOldInput"]) {
			missing = true
		}
		msgs = append(msgs, msg)
	}
	if r.i < len(b) {
		quirk = fmt.Sprintf("%d trailing bytes", len(b)-r.i)
	}
	switch {
	case quirk != "":
		return flashQ, nil, quirk
	case missing:
		return flashQM, msgs, "maps with missing fields"
	}
	return flashW, msgs, ""
}

// armours under which a list may travel in the cookie value
var flashArmours = []struct {
	name string
	dec  func(string) ([]byte, error)
	enc  func([]byte) string
}{
	{"raw", func(s string) ([]byte, error) { return []byte(s), nil }, func(b []byte) string { return string(b) }},
	{"base64", base64.StdEncoding.DecodeString, base64.StdEncoding.EncodeToString},
	{"base64-raw", base64.RawStdEncoding.DecodeString, base64.RawStdEncoding.EncodeToString},
	{"base64url", base64.URLEncoding.DecodeString, base64.URLEncoding.EncodeToString},
	{"base64url-raw", base64.RawURLEncoding.DecodeString, base64.RawURLEncoding.EncodeToString},
	{"hex", hex.DecodeString, hex.EncodeToString},
}

// flashClassify: best class of the cookie value under any armour.
func flashClassify(v string) (class int, msgs []flashMsg, why string, armour int, plainBytes [][]byte) {
	class, armour = -1, 0
	for i, a := range flashArmours {
		b, err := a.dec(v)
		if err != nil || (i > 0 && len(b) == 0) {
			continue
		}
		plainBytes = append(plainBytes, b)
		c, m, w := flashRefDecode(b)
		if i > 0 {
			w = a.name + ": " + w
		}
		if c > class {
			class, msgs, why, armour = c, m, w, i
		}
	}
	return
}

// ---------------------------------------------------------------------------------------------
// reference MessagePack writer for crafted cookies

func flashMPStr(b []byte, s string) []byte {
	switch {
	case len(s) < 32:
		b = append(b, 0xa0|byte(len(s)))
	case len(s) < 256:
		b = append(b, 0xd9, byte(len(s)))
	default:
		b = append(b, 0xda, byte(len(s)>>8), byte(len(s)))
	}
	return append(b, s...)
}

func flashMPLevel(b []byte, l uint8) []byte {
	if l < 0x80 {
		return append(b, l)
	}
	return append(b, 0xcc, l)
}

func flashMPBool(b []byte, v bool) []byte {
	if v {
		return append(b, 0xc3)
	}
	return append(b, 0xc2)
}

// flashMPMsg writes one map; fields is the order / subset (k v l o), extra adds an unknown field.
func flashMPMsg(b []byte, m flashMsg, fields string, extra []byte) []byte {
	n := len(fields)
	if extra != nil {
		n++
	}
	b = append(b, 0x80|byte(n))
	for _, f := range fields {
		switch f {
		case 'k':
			b = flashMPStr(b, "key")
			b = flashMPStr(b, m.Key)
		case 'v':
			b = flashMPStr(b, "value")
			b = flashMPStr(b, m.Value)
		case 'l':
			b = flashMPStr(b, "level")
			b = flashMPLevel(b, m.Level)
		case 'o':
			b = flashMPStr(b, "isOldInput")
			b = flashMPBool(b, m.Old)
		}
	}
	if extra != nil {
		b = flashMPStr(b, "note")
		b = append(b, extra...)
	}
	return b
}

func flashMPArr(b []byte, n uint32) []byte {
	switch {
	case n < 16:
		return append(b, 0x90|byte(n))
	case n < 1<<16:
		return append(b, 0xdc, byte(n>>8), byte(n))
	}
	return append(b, 0xdd, byte(n>>24), byte(n>>16), byte(n>>8), byte(n))
}

// craftMsgs: 0-3 messages whose encoding consists of bytes a header can carry
func (r *flashRun) craftMsgs(lo, hi int) []flashMsg {
	s := r.s
	var out []flashMsg
	n := s.Range(lo, hi)
	for i := 0; i < n; i++ {
		m := flashMsg{Level: flashSafeLevel(s.Draw(222)), Old: s.Chance(400)}
		nk, nv := s.Range(2, 6), s.Range(2, 9)
		if s.Chance(200) {
			nv = s.Range(33, 50) // str8 header whose length byte is no control byte
		}
		for j := 0; j < nk; j++ {
			m.Key += flashPlain[s.Draw(len(flashPlain))]
		}
		for j := 0; j < nv; j++ {
			m.Value += simrt.PickS(s, flashPlain, flashPlain, []string{",", ":", "=", "%", "é", "日"})[s.Draw(6)]
		}
		for len(m.Value) == 0x3b || len(m.Value) == 0x7f {
			m.Value += "a" // the str8 length byte would be ';' or DEL
		}
		out = append(out, m)
	}
	return out
}

func (r *flashRun) junk(depth int) []byte {
	s := r.s
	switch s.Draw(9) {
	case 0:
		return []byte{0x2a}
	case 1:
		return flashMPStr(nil, "junk")
	case 2:
		return []byte{0xc3}
	case 3:
		return []byte{0xcb, 0x40, 0x45, 0x40, 0x40, 0x40, 0x40, 0x40, 0x40} // float64
	case 4:
		return append([]byte{0xc4, 0x21}, bytes.Repeat([]byte("b"), 0x21)...) // bin8
	case 5:
		return []byte{0xd5, 0x21, 'e', 'x'} // fixext 2
	case 6:
		return []byte{0xc0}
	default:
		if depth >= 3 {
			return []byte{0x90}
		}
		n := s.Range(0, 3)
		var b []byte
		if s.Chance(500) {
			b = append(b, 0x90|byte(n))
			for i := 0; i < n; i++ {
				b = append(b, r.junk(depth+1)...)
			}
		} else {
			b = append(b, 0x80|byte(n))
			for i := 0; i < n; i++ {
				b = flashMPStr(b, "f"+strconv.Itoa(i))
				b = append(b, r.junk(depth+1)...)
			}
		}
		return b
	}
}

// flashTransportable rewrites bytes that cannot reach the application inside a
// Cookie header (control bytes: 400 from fasthttp's header parser; ';', blanks
// and quotes at the edges: Cookie syntax).
func flashTransportable(b []byte) []byte {
	out := append([]byte(nil), b...)
	for i, c := range out {
		switch {
		case c < 0x20 || c == 0x7f:
			out[i] = c | 0x80
		case c == ';':
			out[i] = ':'
		}
	}
	if n := len(out); n > 0 {
		if out[0] == ' ' || out[0] == '"' {
			out[0] = '_'
		}
		if out[n-1] == ' ' {
			out[n-1] = '_'
		}
	}
	return out
}

// ---------------------------------------------------------------------------------------------
// RFC 6265 sec. 5 user agent on the raw response bytes

type flashWire struct {
	found   bool
	line    string // set-cookie-string
	value   string
	live    bool   // found and not an expiring ("delete") cookie
	path    string // Path attribute ("" = none: the user agent uses the request's default-path)
	problem string // why an RFC 6265 sec. 5 user agent cannot take the value ("" = it can)
	kind    string // header-injection | control-byte | delimiter | malformed
}

var flashKnownAttr = map[string]bool{"expires": true, "max-age": true, "domain": true, "path": true, "secure": true, "httponly": true, "samesite": true, "partitioned": true}

func flashLenient(raw []byte, name, server string) flashWire {
	var w flashWire
	end := bytes.Index(raw, []byte("\r\n\r\n"))
	if end < 0 {
		w.problem = "the response has no end of header block"
		return w
	}
	rest := raw[end+4:]
	lines := strings.Split(string(raw[:end]), "\n")
	cl := -1
	junk, ctl, attr := "", -1, ""
	for _, ln := range lines[1:] {
		ln = strings.TrimSuffix(ln, "\r")
		c := strings.IndexByte(ln, ':')
		if c < 0 {
			if junk == "" {
				junk = ln
			}
			continue
		}
		hn := strings.ToLower(strings.TrimSpace(ln[:c]))
		hv := strings.TrimLeft(ln[c+1:], " \t")
		if hn == "content-length" {
			cl = atoi(strings.TrimSpace(hv))
		}
		if hn != "set-cookie" {
			continue
		}
		parts := strings.Split(hv, ";")
		eq := strings.IndexByte(parts[0], '=')
		if eq < 0 || strings.Trim(parts[0][:eq], " \t") != name || w.found {
			continue
		}
		w.found = true
		w.line = hv
		w.value = strings.Trim(parts[0][eq+1:], " \t")
		for i := 0; i < len(hv); i++ {
			if (hv[i] < 0x20 && hv[i] != '\t') || hv[i] == 0x7f {
				ctl = i
				break
			}
		}
		w.live = true
		for _, p := range parts[1:] {
			an, av := p, ""
			if e := strings.IndexByte(p, '='); e >= 0 {
				an, av = p[:e], strings.Trim(p[e+1:], " \t")
			}
			an = strings.ToLower(strings.Trim(an, " \t"))
			switch an {
			case "path":
				if strings.HasPrefix(av, "/") {
					w.path = av
				}
			case "max-age":
				if n, err := strconv.Atoi(av); err == nil && n <= 0 {
					w.live = false
				}
			case "expires":
				if t, err := time.Parse(time.RFC1123, av); err == nil && !t.After(time.Now()) {
					w.live = false
				}
			}
			if !flashKnownAttr[an] && attr == "" {
				attr = p
			}
		}
	}
	switch {
	case server != "" && !w.found:
		w.kind = "malformed"
		w.problem = "the handler's response carries the cookie but no Set-Cookie line for it arrives"
	case server != "" && w.line != server:
		w.kind = "header-injection"
		w.problem = fmt.Sprintf("CR/LF inside the cookie value split the header: the Set-Cookie line on the wire is %q, the server serialised %q", flashClip(w.line), flashClip(server))
	case junk != "":
		w.kind = "header-injection"
		w.problem = fmt.Sprintf("the header block contains a line that is no header field: %q", flashClip(junk))
	case cl >= 0 && len(rest) != cl:
		w.kind = "header-injection"
		w.problem = fmt.Sprintf("%d bytes follow the header block, Content-Length is %d", len(rest), cl)
	case ctl >= 0:
		w.kind = "control-byte"
		w.problem = fmt.Sprintf("the set-cookie-string contains control byte 0x%02x at offset %d: user agents ignore such a cookie (RFC 6265bis 5.6) and a Cookie header repeating it is rejected by the server's own parser", w.line[ctl], ctl)
	case attr != "":
		w.kind = "delimiter"
		w.problem = fmt.Sprintf("the value contains ';': the user agent cuts it there and sees the rest as attribute %q", flashClip(attr))
	}
	return w
}

type flashCtx struct {
	fiber.DefaultCtx
}

type flashValidator struct{}

func (flashValidator) Validate(out any) error {
	v := reflect.ValueOf(out)
	for v.Kind() == reflect.Pointer {
		v = v.Elem()
	}
	if v.Kind() != reflect.Struct {
		return errors.New("validator: (nil " + v.Kind().String() + ") is not a struct")
	}
	return nil
}

// flashDefaultPath: RFC 6265 5.1.4.
func flashDefaultPath(reqPath string) string {
	if i := strings.IndexAny(reqPath, "?#"); i >= 0 {
		reqPath = reqPath[:i]
	}
	if i := strings.LastIndexByte(reqPath, '/'); i > 0 {
		return reqPath[:i]
	}
	return "/"
}

// flashStored returns the stored flash cookie (longest path first) or nil.
func flashStored(b *harness.Browser) *harness.BCookie {
	var best *harness.BCookie
	if _, ok := b.Get(flashName); !ok { // also drops what has expired by now
		return nil
	}
	for _, c := range b.Cookies {
		if c.Name != flashName {
			continue
		}
		if best == nil || len(c.Path) > len(best.Path) || (len(c.Path) == len(best.Path) && c.Path < best.Path) {
			best = c
		}
	}
	return best
}

// flashStore puts a flash cookie for the given path into the client's store.
func flashStore(b *harness.Browser, value, path string) {
	b.Cookies[flashName+"\x00"+path] = &harness.BCookie{Name: flashName, Value: value, Path: path}
}

// flashSent: the flash cookie value a request for reqPath carries.
func flashSent(b *harness.Browser, reqPath string) (string, bool) {
	for _, p := range strings.Split(b.HeaderFor(reqPath), "; ") {
		if strings.HasPrefix(p, flashName+"=") {
			return p[len(flashName)+1:], true
		}
	}
	return "", false
}

func flashClip(s string) string {
	if len(s) > 120 {
		return s[:120] + "…"
	}
	return s
}

// ---------------------------------------------------------------------------------------------
// the run

func flashMain(s *simrt.Sim, info *harness.RunInfo) {
	faults := s.Chance(500)
	info.Faults = faults
	r := &flashRun{s: s, faults: faults, reported: map[string]bool{}, history: map[string]bool{}, armour: -1}
	r.nb = s.Range(1, 3)
	r.alpha = s.Draw(4)
	r.levels = simrt.PickS(s, 0, 1, 2, 1)
	poolDrop := simrt.PickS(s, 0, 0, 200)
	extraCookies := s.Chance(300)
	nsteps := s.Range(2, 24)
	cfgLine := fmt.Sprintf("faults=%v browsers=%d alphabet=%d levels=%d poolDrop=%d extraCookies=%v steps=%d", faults, r.nb, r.alpha, r.levels, poolDrop, extraCookies, nsteps)
	s.Logf("cfg %s", cfgLine)
	r.h = newHasher().str(cfgLine)

	// a present-day client: fasthttp's "delete" date (2009) must be in the past
	simrt.Sleep(time.Date(2026, 1, 1, 0, 0, 0, 0, time.UTC).Sub(time.Now()))
	s.SetPreempt(0)
	s.SetPoolDrop(poolDrop)

	// the application's error handler: the default one, a custom one, or a custom one that itself fails
	// (fault: the framework then answers 500 on its own) - the consumed cookie must be expired regardless
	ehMode := simrt.PickS(s, 0, 0, 1, 2)
	// (comma splitting is a matter of the application's binders; old input is taken as submitted)
	fcfg := fiber.Config{EnableSplittingOnParsers: s.Chance(300)}
	if s.Chance(200) {
		// the application validates what it binds; as the usual validators do, this one refuses what is not a struct
		fcfg.StructValidator = flashValidator{}
		s.Logf("cfg structValidator=true")
	}
	if ehMode > 0 {
		fcfg.ErrorHandler = func(c fiber.Ctx, err error) error {
			if ehMode == 2 {
				s.Count("fault_error_handler_failed")
				return errors.New("the error page could not be rendered")
			}
			return fiber.DefaultErrorHandler(c, err)
		}
	}
	s.Logf("cfg errorHandler=%d", ehMode)
	app := fiber.New(fcfg)
	r.app = app
	if s.Chance(200) {
		// an application with a context type of its own, built the documented way
		app.NewCtxFunc(func(a *fiber.App) fiber.CustomCtx {
			return &flashCtx{DefaultCtx: *fiber.NewDefaultCtx(a)}
		})
		s.Logf("cfg customCtx=true")
		s.Count("probe_custom_context_type")
	}
	record := func(c fiber.Ctx, op *flashOp) {
		op.ran = true
		op.cookie = strings.Clone(c.Cookies(flashName))
		if !op.read {
			return
		}
		for _, m := range c.Redirect().Messages() {
			op.msgs = append(op.msgs, flashMsg{Key: strings.Clone(m.Key), Value: strings.Clone(m.Value), Level: m.Level})
		}
		for _, in := range c.Redirect().OldInputs() {
			op.msgs = append(op.msgs, flashMsg{Key: strings.Clone(in.Key), Value: strings.Clone(in.Value), Old: true})
		}
		for _, k := range op.probeKeys {
			m, o := c.Redirect().Message(k), c.Redirect().OldInput(k)
			m.Key, m.Value, o.Key, o.Value = strings.Clone(m.Key), strings.Clone(m.Value), strings.Clone(o.Key), strings.Clone(o.Value)
			op.probes = append(op.probes, flashProbe{key: k, m: m, o: o})
		}
	}
	opOf := func(c fiber.Ctx) *flashOp { return r.ops[atoi(c.Get("X-Op"))] }
	app.Post("/go", func(c fiber.Ctx) error {
		op := opOf(c)
		record(c, op)
		rd := c.Redirect()
		if op.status != 0 {
			rd.Status(op.status)
		}
		for i, m := range op.with {
			if op.hasLevel[i] {
				rd.With(m.Key, m.Value, m.Level)
			} else {
				rd.With(m.Key, m.Value)
			}
			if op.twoStage && i == 0 && len(op.with) > 1 {
				// the handler settles on a target, then adds more and redirects again: everything attached
				// in this request travels with the final redirect
				_ = rd.To("/plain")
			}
		}
		if op.inputMode != 0 {
			rd.WithInput()
		}
		var err error
		switch {
		case op.route && op.routeQueries:
			err = rd.Route("show", fiber.RedirectConfig{Queries: map[string]string{"ref": "1"}})
		case op.route:
			err = rd.Route("show")
		default:
			err = rd.To("/show")
		}
		op.srvCookie = string(c.Response().Header.PeekCookie(flashName))
		return err
	})
	show := func(c fiber.Ctx) error {
		op := opOf(c)
		if op.nested != nil {
			op.nested()
		}
		record(c, op)
		// a consumer that has looked at the messages and then fails
		switch {
		case op.failCode == -2:
			// the page ends in a file that is not there (any more)
			return c.SendFile("/nonexistent-dir-for-flash/report.pdf")
		case op.failCode == -3:
			return c.Download("/nonexistent-dir-for-flash/report.pdf", "report.pdf")
		case op.failCode < 0:
			return errors.New("consumer failed after reading the messages")
		case op.failCode > 0:
			return fiber.NewError(op.failCode, "consumer failed after reading the messages")
		}
		return c.SendString("ok")
	}
	// hop: consume the messages, then redirect again without (hop) or with new messages (hop2)
	hop := func(c fiber.Ctx) error {
		op := opOf(c)
		record(c, op)
		rd := c.Redirect()
		for i, m := range op.with {
			if op.hasLevel[i] {
				rd.With(m.Key, m.Value, m.Level)
			} else {
				rd.With(m.Key, m.Value)
			}
		}
		err := rd.To("/show")
		op.srvCookie = string(c.Response().Header.PeekCookie(flashName))
		return err
	}
	app.Get("/hop", hop)
	app.Get("/hop2", hop)
	app.Get("/a/b/hop", hop)
	app.Get("/a/b/hop2", hop)
	app.Get("/show", show).Name("show")
	app.Get("/plain", show)
	app.Get("/account/show", show)
	app.Get("/account/plain", show)
	app.Get("/nest", show)
	app.Handler()

	for i := 0; i < r.nb; i++ {
		b := harness.NewBrowser("b" + strconv.Itoa(i))
		if extraCookies {
			b.Set("aa", "1")
			if s.Chance(500) {
				b.Set("zz", simrt.PickS(s, "1", "x"+flashName))
			}
		}
		r.browsers = append(r.browsers, b)
		r.conns = append(r.conns, harness.NewConn(app, "10.0.0."+strconv.Itoa(i+1)))
		r.st = append(r.st, &flashBrowserState{})
	}

	for step := 0; step < nsteps && !r.dead; step++ {
		r.step(s.Draw(r.nb), 0)
	}
	// drain: every browser that still holds a cookie presents it once
	for bi := 0; bi < r.nb && !r.dead; bi++ {
		if _, has := r.browsers[bi].Get(flashName); has {
			r.request(bi, "show", 0)
		}
	}
	if r.nDeliver > 0 {
		s.Count("probe_runs_with_delivery_observed")
	}
	info.StateHash = r.h.h
	info.Nontrivial = r.nDeliver > 0 || r.nHostile > 0
	info.Sample = map[string]any{"config": cfgLine, "requests": len(r.ops), "deliveries_observed": r.nDeliver, "hostile_cookies_decoded": r.nHostile}
}

func (r *flashRun) step(bi, depth int) {
	s := r.s
	b := r.browsers[bi]
	st := r.st[bi]
	kinds := []string{"show", "show", "plain", "hop", "hop2"}
	if depth == 0 && r.nb > 1 {
		kinds = append(kinds, "nest")
	}
	if _, has := b.Get(flashName); has {
		if r.faults && st.pending != nil && s.Chance(400) {
			r.corrupt(bi)
		}
		r.request(bi, kinds[s.Draw(len(kinds))], depth)
		return
	}
	d := s.Draw(10)
	switch {
	case d < 5:
		r.redirect(bi)
	case r.faults && d < 8:
		r.craft(bi)
		if r.st[bi].hostile != nil && r.st[bi].hostile.bomb > 0 {
			r.request(bi, "show", depth)
		} else {
			r.request(bi, kinds[s.Draw(len(kinds))], depth)
		}
	default:
		r.request(bi, kinds[s.Draw(len(kinds))], depth)
	}
}

// do serves one request and measures the bytes allocated meanwhile.
func (r *flashRun) do(bi int, raw []byte) (resp *harness.Resp, delta uint64) {
	var m0, m1 runtime.MemStats
	defer func() {
		if p := recover(); p != nil {
			r.fail("C12.panic", "serving a request of b%d panicked: %v", bi, p)
			r.dead = true
			r.s.Abort()
			simrt.Yield(900)
		}
	}()
	runtime.ReadMemStats(&m0)
	resp = r.conns[bi].Do(raw)
	runtime.ReadMemStats(&m1)
	return resp, m1.TotalAlloc - m0.TotalAlloc
}

func (r *flashRun) remember(ms []flashMsg) {
	for _, m := range ms {
		if len(m.Key) >= 2 {
			r.history[m.Key] = true
		}
		if len(m.Value) >= 2 {
			r.history[m.Value] = true
		}
	}
}

// redirect: POST /go by a browser that holds no flash cookie.
func (r *flashRun) redirect(bi int) {
	s := r.s
	b, st := r.browsers[bi], r.st[bi]
	op := &flashOp{id: len(r.ops), browser: bi, kind: "go", read: true}
	r.genGo(op)
	r.ops = append(r.ops, op)
	req := harness.Req{Method: "POST", Path: "/go", Headers: [][2]string{{"X-Op", strconv.Itoa(op.id)}}}
	if ck := b.HeaderFor("/go"); ck != "" {
		req.Headers = append(req.Headers, [2]string{"Cookie", ck})
	}
	form := url.Values{}
	for _, in := range op.inputs {
		form.Set(in.Key, in.Value)
	}
	switch op.inputMode {
	case 1:
		req.Headers = append(req.Headers, [2]string{"Content-Type", "application/x-www-form-urlencoded"})
		req.Body = []byte(form.Encode())
	case 2:
		if len(op.inputs) > 0 {
			req.Path += "?" + form.Encode()
		}
	case 3:
		const bound = "XxBoundaryxX"
		req.Headers = append(req.Headers, [2]string{"Content-Type", "multipart/form-data; boundary=" + bound})
		var body bytes.Buffer
		for _, in := range op.inputs {
			fmt.Fprintf(&body, "--%s\r\nContent-Disposition: form-data; name=\"%s\"\r\n\r\n%s\r\n", bound, in.Key, in.Value)
		}
		fmt.Fprintf(&body, "--%s--\r\n", bound)
		req.Body = body.Bytes()
	}
	s.Logf("op%d b%d POST /go with=%s hasLevel=%v inputs(mode %d)=%s route=%v status=%d", op.id, bi, flashList(op.with), op.hasLevel, op.inputMode, flashList(op.inputs), op.route, op.status)
	resp, _ := r.do(bi, req.Bytes())
	if r.dead {
		return
	}
	r.noneExpected(op, resp, "POST /go without a flash cookie")
	_, err := b.ApplyAt(resp, "POST", "/go")
	wire := flashLenient(resp.Raw, flashName, op.srvCookie)
	st.pending, st.hostile, st.tier, st.after = nil, nil, "", false
	sv, spath, stored := "", "", false
	if c := flashStored(b); c != nil {
		sv, spath, stored = c.Value, c.Path, true
	}
	outcome := r.issue(bi, op, wire, err, "POST /go", "/go", sv, spath, stored)
	r.remember(op.with)
	r.remember(op.inputs)
	s.Logf("op%d ret status=%d location=%q set-cookie=%v tier=%s", op.id, resp.Status, resp.Get("Location"), wire.live, outcome)
	r.h.str("go").int(bi).str(outcome)
}

// issue: which client tier takes the cookie a redirect wrote. err, sv, stored are
// the strict client's verdict on this response alone (a store that was empty
// before); the caller has already removed any previous flash cookie.
func (r *flashRun) issue(bi int, op *flashOp, wire flashWire, err error, what, reqPath, sv, spath string, stored bool) string {
	s := r.s
	b, st := r.browsers[bi], r.st[bi]
	attached := len(flashExpected(op)[0]) > 0
	strictOK := false
	switch {
	case err != nil:
		r.fail("C12.strict-client-response", "op%d b%d: net/http cannot parse the response to %s with %s: %v", op.id, bi, what, flashList(op.with), err)
	case !wire.live && !stored:
		strictOK = true // no cookie issued
	case wire.live && !stored:
		off, bad := -1, byte(0)
		for i := 0; i < len(wire.value); i++ {
			if c := wire.value[i]; c < 0x20 || c >= 0x7f || c == '"' || c == ';' || c == '\\' {
				off, bad = i, c
				break
			}
		}
		r.fail("C12.strict-client", "op%d b%d: redirect with %s: net/http drops the Set-Cookie (value of %d bytes; byte 0x%02x at offset %d is not a legal cookie value byte): a strict client never presents the messages", op.id, bi, flashList(op.with), len(wire.value), bad, off)
	case stored && (wire.problem != "" || (sv != wire.value && `"`+sv+`"` != wire.value)):
		r.fail("C12.strict-client", "op%d b%d: redirect with %s: net/http stores %d bytes for a cookie value of %d bytes on the wire (%s)", op.id, bi, flashList(op.with), len(sv), len(wire.value), wire.problem)
	default:
		strictOK = true
	}
	outcome := "no-cookie"
	switch {
	case !wire.live && !stored:
		if attached {
			r.fail("C12.deliver-no-cookie", "op%d b%d: %s redirecting with %s %s issued no %s cookie", op.id, bi, what, flashList(op.with), flashList(op.inputs), flashName)
		}
	case strictOK:
		b.Del(flashName)
		flashStore(b, sv, spath)
		st.pending, st.tier = op, "strict"
		outcome = "strict"
	case wire.problem != "":
		// tier 2 cannot take it either
		id := "C12.lenient-client-" + wire.kind
		if wire.kind == "header-injection" {
			id = "C12.header-injection"
		}
		r.fail(id, "op%d b%d: %s redirecting with %s %s: %s", op.id, bi, what, flashList(op.with), flashList(op.inputs), wire.problem)
		b.Del(flashName)
		outcome = "undeliverable"
		s.Count("probe_cookie_unusable_for_any_client")
		// no client can carry this value and no HTTP parser lets it through (the known wire-format finding).
		// What the encoder wrote must still be what the decoder reads: the bytes are handed to the
		// application behind the request parser
		if sc := op.srvCookie; !r.dead && strings.HasPrefix(sc, flashName+"=") && s.Chance(500) {
			// the value exactly as the server wrote it (what a client makes of the line is cut at the first illegal byte)
			v := sc[len(flashName)+1:]
			if i := strings.LastIndex(v, "; path="); i >= 0 {
				v = v[:i]
			}
			r.inProcess(bi, op, v)
		}
	default:
		path := wire.path
		if path == "" {
			path = flashDefaultPath(reqPath)
		}
		b.Del(flashName)
		flashStore(b, wire.value, path)
		st.pending, st.tier = op, "lenient"
		outcome = "lenient"
		s.Count("probe_lenient_client_fallback")
	}
	if st.pending != nil {
		if _, _, _, a, _ := flashClassify(wire.value); r.armour < 0 {
			r.armour = a
		}
	}
	return outcome
}

// noneExpected: a request without the cookie must observe no messages.
func (r *flashRun) noneExpected(op *flashOp, resp *harness.Resp, what string) {
	if resp.ReadErr != nil || !op.ran {
		r.fail("C12.answered", "op%d b%d %s was not served by its handler: status %d err %v", op.id, op.browser, what, resp.Status, resp.ReadErr)
		return
	}
	if !op.read {
		return
	}
	if len(op.msgs) > 0 {
		r.fail("C12.none", "op%d b%d %s observes %s", op.id, op.browser, what, flashList(op.msgs))
		return
	}
	for _, p := range op.probes {
		if (p.m != fiber.FlashMessage{}) || (p.o != fiber.OldInputData{}) {
			r.fail("C12.none", "op%d b%d %s: Message(%q)={%q %q %d} OldInput={%q %q}", op.id, op.browser, what, p.key, p.m.Key, p.m.Value, p.m.Level, p.o.Key, p.o.Value)
			return
		}
	}
}

// request: GET /show | /plain | /nest with whatever the browser's store holds.
func (r *flashRun) request(bi int, kind string, depth int) {
	s := r.s
	b, st := r.browsers[bi], r.st[bi]
	op := &flashOp{id: len(r.ops), browser: bi, kind: kind, read: true}
	if kind == "plain" && s.Chance(400) {
		op.read = false // a handler that does not look at the messages
	}
	if st.hostile != nil && st.hostile.bomb > 0 && s.Chance(400) {
		op.read = false // the cost is then the decoder's alone
	}
	if kind == "hop2" {
		budget := 600
		r.genWith(op, simrt.PickS(s, 1, 2, 3), &budget)
	}
	hopping := kind == "hop" || kind == "hop2"
	if !hopping {
		// non-failing handler first; 503 and a plain error are server failures, 404 / 409 the control
		op.failCode = simrt.PickS(s, 0, 0, 0, 0, 503, -1, 404, 409, 500, -2, -3)
	}
	// consumers also live below the root: the client scopes cookies by path
	path := "/" + kind
	if kind != "nest" && s.Chance(350) {
		if hopping {
			path = "/a/b/" + kind
		} else {
			path = "/account/" + kind
		}
	}
	op.path = path
	r.ops = append(r.ops, op)
	cookie, has := flashSent(b, path)
	pending, hostile := st.pending, st.hostile
	if !has {
		pending, hostile = nil, nil // a cookie scoped to another path stays where it is
	} else {
		st.pending, st.hostile = nil, nil
	}
	oldPath := ""
	if c := flashStored(b); c != nil {
		oldPath = c.Path
	}

	// keys to look up one by one
	var pool []flashMsg
	var hclass int
	var hmsgs []flashMsg
	var hwhy string
	var hplain [][]byte
	if pending != nil {
		pool = append(append(pool, pending.with...), pending.inputs...)
	}
	if hostile != nil {
		hclass, hmsgs, hwhy, _, hplain = flashClassify(cookie)
		pool = append(pool, hmsgs...)
		if hostile.baseOp != nil {
			pool = append(pool, hostile.baseOp.with...)
		}
	}
	for _, m := range pool {
		if len(op.probeKeys) < 3 && s.Chance(600) {
			op.probeKeys = append(op.probeKeys, m.Key)
		}
	}
	if s.Chance(300) {
		op.probeKeys = append(op.probeKeys, "absent")
	}

	req := harness.Req{Method: "GET", Path: path, Headers: [][2]string{{"X-Op", strconv.Itoa(op.id)}}}
	if ck := b.HeaderFor(path); ck != "" {
		req.Headers = append(req.Headers, [2]string{"Cookie", ck})
	}
	decoy := false
	if !has && s.Chance(200) {
		decoy = true
		req.Headers = append(req.Headers, [2]string{"X-Note", "about " + flashName})
	}
	if kind == "nest" && depth == 0 {
		other := (bi + 1 + s.Draw(r.nb-1)) % r.nb
		op.nested = func() { r.step(other, depth+1) }
	}
	what := "GET " + path
	switch {
	case op.failCode <= -2:
		what += " (handler reads the messages, then ends in SendFile / Download of a file that does not exist)"
	case op.failCode < 0:
		what += " (handler reads the messages, then returns a plain error)"
	case op.failCode > 0:
		what += fmt.Sprintf(" (handler reads the messages, then returns fiber.NewError(%d))", op.failCode)
	}
	switch {
	case pending != nil:
		what += fmt.Sprintf(" carrying the cookie of op%d (%s client)", pending.id, st.tier)
	case hostile != nil:
		what += " carrying a hostile cookie"
	case st.after:
		what += " after the request that consumed the cookie"
	default:
		what += " without a flash cookie"
	}
	if decoy {
		what += " (a header mentions the cookie name)"
	}
	if hostile != nil {
		s.Logf("op%d b%d %s: %s; %d bytes %q class=%s (%s)", op.id, bi, what, hostile.desc, len(cookie), flashClip(cookie), flashClassName[hclass], hwhy)
	} else {
		s.Logf("op%d b%d %s read=%v probes=%q", op.id, bi, what, op.read, op.probeKeys)
	}
	if kind == "hop2" {
		s.Logf("op%d then redirects with=%s hasLevel=%v", op.id, flashList(op.with), op.hasLevel)
	}
	raw := req.Bytes()
	if len(raw) > 3600 {
		// beyond one read buffer: not a case of this property
		s.Count("probe_request_too_long_skipped")
		b.Del(flashName)
		op.ran = true
		return
	}
	resp, delta := r.do(bi, raw)
	if r.dead {
		return
	}
	_, applyErr := b.ApplyAt(resp, "GET", path)
	if applyErr != nil && !hopping {
		r.fail("C12.strict-client-response", "op%d b%d: net/http cannot parse the response to %s: %v", op.id, bi, what, applyErr)
	}
	// a hop writes a redirect of its own: what do the clients make of this response alone
	var wire flashWire
	var psv, ppath string
	var pstored bool
	if hopping {
		wire = flashLenient(resp.Raw, flashName, op.srvCookie)
		probe := harness.NewBrowser("probe")
		_, _ = probe.ApplyAt(resp, "GET", path)
		if c := flashStored(probe); c != nil {
			psv, ppath, pstored = c.Value, c.Path, true
		}
	}
	// a new cookie of the same name and path takes the place of the old one
	newPath := wire.path
	if newPath == "" {
		newPath = flashDefaultPath(path)
	}
	// (if no client can read the new cookie its scope is unknowable: that is the wire-format
	// finding issue() reports, and nothing is said about the expiry that depends on it)
	replaced := kind == "hop2" && wire.live && (wire.problem != "" || newPath == oldPath)
	s.Logf("op%d ret status=%d ran=%v observed=%s", op.id, resp.Status, op.ran, flashList(op.msgs))
	r.checkProbes(op, what)
	outcome := "none"
	switch {
	case pending != nil:
		outcome = r.checkDelivery(op, pending, st.tier, resp, what, cookie)
		// (once) the response must have expired the cookie in the client's store
		if outcome == "rejected" {
			b.Del(flashName) // the exchange failed before: nothing to say about expiry
		} else if replaced {
			// settled below: whichever client tier can take the new cookie holds it instead
		} else if _, still := b.Get(flashName); still {
			r.fail("C12.once-cookie-not-expired", "op%d b%d: the response to %s leaves the cookie in the client's store (Set-Cookie lines: %q): a conforming client presents the messages of op%d again", op.id, bi, what, resp.Header["Set-Cookie"], pending.id)
			b.Del(flashName) // re-synchronise: act as if it had been expired
		}
		st.after = true
	case hostile != nil:
		outcome = r.checkHostile(op, hostile, resp, cookie, hclass, hmsgs, hwhy, hplain)
		b.Del(flashName)
		st.after = false
	default:
		r.noneExpected(op, resp, what)
		st.after = false
	}
	if hopping && op.ran {
		if has {
			b.Del(flashName) // the previous cookie has been judged above
		}
		if kind == "hop2" {
			outcome += "+" + r.issue(bi, op, wire, applyErr, what, path, psv, ppath, pstored)
			r.remember(op.with)
			st.after = false
		} else if applyErr != nil {
			r.fail("C12.strict-client-response", "op%d b%d: net/http cannot parse the response to %s: %v", op.id, bi, what, applyErr)
		}
		s.Logf("op%d hop location=%q new-cookie=%v store=%s", op.id, resp.Get("Location"), wire.live, outcome)
	}
	// (a consumer that goes on to open a file has fasthttp build its file handler, tables that are set up once per
	// process included: that is not the cost of decoding and is not measured)
	if has && kind != "nest" && op.failCode > -2 {
		bound := uint64(64<<10 + 64*len(cookie))
		if os.Getenv("FLASH_DEBUG_ALLOC") != "" {
			fmt.Fprintf(os.Stderr, "alloc op%d cookie=%d delta=%d bound=%d\n", op.id, len(cookie), delta, bound)
		}
		if delta >= bound {
			detail := ""
			if hostile != nil {
				detail = hostile.desc
				if hostile.bomb > 0 {
					r.bombStop = true
				}
			}
			r.fail("C12.alloc", "op%d b%d %s: serving the request allocated more than 64 KiB + 64*%d bytes (cookie of %d bytes %q; %s)", op.id, bi, what, len(cookie), len(cookie), flashClip(cookie), detail)
			outcome += "+alloc"
		}
	}
	r.h.str(kind).int(bi).int(op.failCode).str(outcome)
}

// inProcess presents an issued cookie value to the application without a wire in between.
func (r *flashRun) inProcess(bi int, pending *flashOp, value string) {
	op := &flashOp{id: len(r.ops), browser: bi, kind: "show", read: true, path: "/show"}
	r.ops = append(r.ops, op)
	conn := r.conns[bi]
	conn.BeforeHandler = func(ctx *fasthttp.RequestCtx) { ctx.Request.Header.SetCookie(flashName, value) }
	resp := conn.Do(harness.Req{Method: "GET", Path: "/show", Headers: [][2]string{{"X-Op", strconv.Itoa(op.id)}, {"X-Carries", flashName}}}.Bytes()) // (fiber looks for the cookie's name in the raw header block first)
	conn.BeforeHandler = nil
	r.s.Logf("op%d b%d GET /show with the cookie of op%d handed over behind the request parser (%d bytes, the application sees %d): status=%d ran=%v msgs=%s", op.id, bi, pending.id, len(value), len(op.cookie), resp.Status, op.ran, flashList(op.msgs))
	if resp.ReadErr != nil || !op.ran {
		return
	}
	if alts := flashExpected(pending); !flashMatches(op.msgs, alts) {
		r.fail("C12.codec-roundtrip", "op%d b%d: the cookie value issued for op%d (With %s hasLevel=%v inputs %s), handed to the application behind the request parser, decodes to %s", op.id, bi, pending.id, flashList(pending.with), pending.hasLevel, flashList(pending.inputs), flashList(op.msgs))
		return
	}
	r.s.Count("probe_delivered_behind_the_parser")
	if len(pending.inputs) > 0 {
		r.s.Count("probe_old_input_delivered_behind_the_parser")
	}
}

func (r *flashRun) checkDelivery(op, pending *flashOp, tier string, resp *harness.Resp, what, cookie string) string {
	if resp.ReadErr != nil || !op.ran {
		r.fail("C12.deliver-request-rejected", "op%d b%d %s: the server does not serve the request (status %d, %v)", op.id, op.browser, what, resp.Status, resp.ReadErr)
		return "rejected"
	}
	if op.cookie != cookie {
		r.s.Logf("op%d note: the application sees a cookie of %d bytes, the client sent %d", op.id, len(op.cookie), len(cookie))
	}
	if !op.read {
		return "unread-" + tier
	}
	r.nDeliver++
	alts := flashExpected(pending)
	if !flashMatches(op.msgs, alts) {
		r.fail("C12.deliver", "op%d b%d %s observes %s, attached by op%d: With %s hasLevel=%v inputs %s", op.id, op.browser, what, flashList(op.msgs), pending.id, flashList(pending.with), pending.hasLevel, flashList(pending.inputs))
		return "wrong-" + tier
	}
	r.s.Count("probe_delivered_" + tier)
	if len(pending.inputs) > 0 {
		r.s.Count("probe_delivered_old_input")
	}
	return "delivered-" + tier
}

// foreign: strings the handler observed that are not contained in the cookie it
// was sent but travelled in an earlier cookie of the run.
func (r *flashRun) foreign(obs []flashMsg, cookie string, plain [][]byte) string {
	contained := func(x string) bool {
		if strings.Contains(cookie, x) {
			return true
		}
		for _, p := range plain {
			if bytes.Contains(p, []byte(x)) {
				return true
			}
		}
		return false
	}
	for _, m := range obs {
		for _, x := range []string{m.Key, m.Value} {
			if len(x) >= 2 && r.history[x] && !contained(x) {
				return x
			}
		}
	}
	return ""
}

func (r *flashRun) checkHostile(op *flashOp, h *flashHostile, resp *harness.Resp, cookie string, class int, dec []flashMsg, why string, plain [][]byte) string {
	s := r.s
	what := fmt.Sprintf("GET %s carrying %s (%d bytes %q, %s: %s)", op.path, h.desc, len(cookie), flashClip(cookie), flashClassName[class], why)
	if resp.Status == 0 || len(resp.Raw) == 0 {
		r.fail("C12.hostile-answered", "op%d b%d %s: no response", op.id, op.browser, what)
		return "unanswered"
	}
	if resp.ReadErr != nil || !op.ran {
		// answered by the server's error handler before fiber ran
		s.Count("probe_hostile_rejected_before_decoding")
		return "rejected"
	}
	if op.cookie != cookie {
		// the header syntax changed the bytes: classify what the application received
		if os.Getenv("FLASH_DEBUG_ALLOC") != "" {
			fmt.Fprintf(os.Stderr, "altered sent=%q got=%q\n", cookie, op.cookie)
		}
		class, dec, why, _, plain = flashClassify(op.cookie)
		cookie = op.cookie
		s.Count("probe_hostile_value_altered_in_transport")
	}
	r.nHostile++
	s.Count("fault_hostile_cookie_" + flashClassName[class])
	defer r.remember(dec)
	if !op.read {
		return "unread"
	}
	leak := r.foreign(op.msgs, cookie, plain)
	if leak != "" {
		r.fail("C12.hostile-predecessor-leak", "op%d b%d %s: the handler observes %s; %q is not contained in the cookie but was carried by an earlier request's cookie", op.id, op.browser, what, flashList(op.msgs), leak)
	}
	switch class {
	case flashN:
		if len(op.msgs) > 0 {
			r.fail("C12.hostile-yields-messages", "op%d b%d %s: the handler observes %d messages %s", op.id, op.browser, what, len(op.msgs), flashList(op.msgs))
			return "malformed-yields"
		}
		return "malformed-none"
	case flashW, flashQM:
		if len(op.msgs) == 0 {
			return flashClassName[class] + "-none"
		}
		if !flashMatches(op.msgs, [][]flashMsg{dec}) {
			id := "C12.wellformed-cookie"
			if class == flashQM {
				id = "C12.hostile-predecessor-leak"
				if leak != "" {
					return "missing-stale"
				}
			}
			r.fail(id, "op%d b%d %s: the cookie encodes %s, the handler observes %s", op.id, op.browser, what, flashList(dec), flashList(op.msgs))
			return flashClassName[class] + "-wrong"
		}
		return flashClassName[class] + "-decoded"
	}
	if len(op.msgs) == 0 {
		return "grey-none"
	}
	return "grey-some"
}

// corrupt damages the cookie the browser stores.
func (r *flashRun) corrupt(bi int) {
	s := r.s
	b, st := r.browsers[bi], r.st[bi]
	v, _ := b.Get(flashName)
	arm := 0
	if r.armour > 0 && s.Chance(600) {
		arm = r.armour
	}
	raw, err := flashArmours[arm].dec(v)
	if err != nil {
		arm, raw = 0, []byte(v)
	}
	h := &flashHostile{baseOp: st.pending}
	switch s.Draw(3) {
	case 0:
		n := s.Draw(len(raw) + 1)
		if n == len(raw) && n > 0 {
			n--
		}
		h.desc = fmt.Sprintf("the cookie of op%d truncated from %d to %d bytes", st.pending.id, len(raw), n)
		raw = raw[:n]
		s.Count("fault_cookie_truncated")
	case 1:
		raw = append([]byte(nil), raw...)
		k := s.Range(1, 3)
		for i := 0; i < k && len(raw) > 0; i++ {
			p := s.Draw(len(raw))
			raw[p] ^= byte(1 + s.Draw(255))
		}
		h.desc = fmt.Sprintf("the cookie of op%d with %d bytes changed", st.pending.id, k)
		s.Count("fault_cookie_bytes_flipped")
	default:
		k := s.Range(1, 8)
		raw = append([]byte(nil), raw...)
		if s.Chance(400) {
			raw = append(raw, flashMPMsg(nil, flashMsg{Key: "zz", Value: "appended", Level: 0x41}, "kvlo", nil)...)
		} else {
			for i := 0; i < k; i++ {
				raw = append(raw, byte(0x20+s.Draw(0xe0)))
			}
		}
		h.desc = fmt.Sprintf("the cookie of op%d with bytes appended", st.pending.id)
		s.Count("fault_cookie_bytes_appended")
	}
	if arm == 0 {
		raw = flashTransportable(raw)
	}
	h.value = flashArmours[arm].enc(raw)
	if h.value == v {
		return // the damage was undone by the transport rules: still the issued cookie
	}
	b.Set(flashName, h.value)
	st.pending, st.hostile = nil, h
}

// craft replaces the browser's cookie by crafted MessagePack.
func (r *flashRun) craft(bi int) {
	s := r.s
	b, st := r.browsers[bi], r.st[bi]
	h := &flashHostile{}
	var raw []byte
	kind := s.Draw(8)
	if kind == 2 && r.bombStop {
		kind = 1
	}
	switch kind {
	case 0: // well-formed list, possibly in another field order / wider headers
		ms := r.craftMsgs(1, 3)
		order := simrt.PickS(s, "kvlo", "olvk", "vklo", "lokv")
		raw = flashMPArr(nil, uint32(len(ms)))
		for _, m := range ms {
			raw = flashMPMsg(raw, m, order, nil)
		}
		h.desc = fmt.Sprintf("a crafted well-formed list %s (field order %s)", flashList(ms), order)
		s.Count("fault_crafted_wellformed")
	case 1: // header announces more than present
		ms := r.craftMsgs(0, 2)
		// counts whose header bytes a Cookie header can carry
		n := uint32(simrt.PickS(s, len(ms)+1, len(ms)+2, 7, 15, 0x2020, 0x7e21))
		if n > 15 && r.bombStop {
			n = 15
		}
		if n > 15 {
			h.bomb = int(n)
		}
		raw = flashMPArr(nil, n)
		for _, m := range ms {
			raw = flashMPMsg(raw, m, "kvlo", nil)
		}
		if s.Chance(300) { // and the next map is cut
			part := flashMPMsg(nil, flashMsg{Key: "cut", Value: "cutvalue", Level: 0x42}, "kvlo", nil)
			raw = append(raw, part[:s.Range(1, len(part)-1)]...)
		}
		h.desc = fmt.Sprintf("a crafted array header announcing %d elements with %d complete ones %s", n, len(ms), flashList(ms))
		s.Count("fault_crafted_count_exceeds_elements")
	case 2: // the announced count is the attack: escalate only while the allocation bound holds
		ladder := []uint32{0xffff, 0x20202020, 0xffffffff}
		top := s.Draw(len(ladder))
		ms := r.craftMsgs(0, 1)
		for lvl := 0; lvl <= top && !r.bombStop && !r.dead; lvl++ {
			raw = flashMPArr(nil, ladder[lvl])
			for _, m := range ms {
				raw = flashMPMsg(raw, m, "kvlo", nil)
			}
			if len(ms) == 0 {
				raw = append(raw, 0x80) // one empty map, so that the header does not end in blanks
			}
			h = &flashHostile{bomb: int(ladder[lvl]), desc: fmt.Sprintf("a crafted array header announcing %d elements with %d complete ones", ladder[lvl], len(ms))}
			s.Count("fault_crafted_huge_count")
			if lvl < top {
				// all but the last are sent right here, the last by the caller
				if r.armour <= 0 {
					raw = flashTransportable(raw)
				}
				h.value = flashArmours[max(r.armour, 0)].enc(raw)
				b.Set(flashName, h.value)
				st.pending, st.hostile = nil, h
				r.request(bi, "show", 1)
			}
		}
		if r.bombStop || r.dead {
			return
		}
	case 3: // maps with missing fields
		ms := r.craftMsgs(1, 3)
		raw = flashMPArr(nil, uint32(len(ms)))
		var sub []string
		for _, m := range ms {
			f := simrt.PickS(s, "k", "kv", "v", "kl", "ko", "", "vlo", "kvl")
			sub = append(sub, f)
			raw = flashMPMsg(raw, m, f, nil)
		}
		h.desc = fmt.Sprintf("a crafted list whose maps carry only the fields %q of %s", sub, flashList(ms))
		s.Count("fault_crafted_missing_fields")
	case 4: // unknown fields with nested junk
		ms := r.craftMsgs(1, 2)
		raw = flashMPArr(nil, uint32(len(ms)))
		for _, m := range ms {
			raw = flashMPMsg(raw, m, simrt.PickS(s, "kvlo", "kv", "lo"), r.junk(0))
		}
		h.desc = fmt.Sprintf("a crafted list with unknown fields holding nested objects, messages %s", flashList(ms))
		s.Count("fault_crafted_unknown_fields")
	case 5: // mistyped known field
		ms := r.craftMsgs(1, 2)
		raw = flashMPArr(nil, uint32(len(ms)+1))
		for _, m := range ms {
			raw = flashMPMsg(raw, m, "kvlo", nil)
		}
		bad := simrt.PickS(s, "key", "value", "level", "isOldInput")
		raw = append(raw, 0x82)
		raw = flashMPStr(raw, "key")
		raw = flashMPStr(raw, "typed")
		raw = flashMPStr(raw, bad)
		switch bad {
		case "key", "value":
			raw = append(raw, simrt.PickS(s, []byte{0x2a}, []byte{0xc3}, []byte{0x91, 0x2a}, []byte{0x80})...)
		case "level":
			raw = append(raw, simrt.PickS(s, []byte{0xa1, 'x'}, []byte{0xcd, 0x21, 0x21}, []byte{0xc3}, []byte{0xe0})...)
		default:
			raw = append(raw, simrt.PickS(s, []byte{0x21}, []byte{0xa1, 'y'}, []byte{0x90})...)
		}
		h.desc = fmt.Sprintf("a crafted list %s followed by a map whose %s has the wrong type", flashList(ms), bad)
		s.Count("fault_crafted_mistyped_field")
	case 6: // not a list at all
		raw = r.junk(0)
		if s.Chance(300) {
			raw = append([]byte{0x91}, raw...)
		}
		h.desc = "crafted MessagePack that is no list of maps"
		s.Count("fault_crafted_junk")
	default: // empty / text
		raw = []byte(simrt.PickS(s, "", "x", "%91%84", "null", "[]"))
		h.desc = fmt.Sprintf("the text %q", raw)
		s.Count("fault_crafted_text")
	}
	arm := max(r.armour, 0)
	if arm == 0 {
		raw = flashTransportable(raw)
	}
	h.value = flashArmours[arm].enc(raw)
	b.Set(flashName, h.value)
	st.pending, st.hostile = nil, h
}
