package engines

import (
	"encoding/json"
	"errors"
	"fmt"
	"sort"
	"strconv"
	"strings"
	"sync"
	"time"

	"github.com/gofiber/fiber/v3"
	"github.com/gofiber/fiber/v3/middleware/session"
	"github.com/gofiber/fiber/v3/simexport"

	"verif.local/sim/harness"
	"verif.local/sim/simrt"
)

// C15 — sessions: step-by-step refinement of a map-of-sessions reference
// model (DESIGN.md 3.7 / A.3) by operation histories of several clients.

func init() {
	harness.Register(&harness.Engine{
		Name: "session", Property: "C15", Level: "exploration",
		Main:       sessionMain,
		MaxSimTime: 30 * time.Minute,
		Rule: "per run the tape draws id source (cookie/header/query), storage (SimStorage / in-repo memory storage), idle and absolute timeouts, mode (sequential with shared ids and store-wide operations, or concurrent clients on disjoint sessions), " +
			"2-4 clients x up to 8 requests; each request presents the client's current id, a stale id (destroyed / regenerated / reset / expired), a forged id, another client's id (sequential mode) or none, and runs a generated program " +
			"(set/delete keys, Destroy, Reset, Regenerate, SetIdleTimeout, Save in the middle of a request, values gob cannot encode) through the middleware or the store API (Get+Save/Release, also twice per request, GetByID, Delete, Reset); the clock advances around the timeouts; a fault stratum (25 %) injects storage Get / Delete errors; every key handed to Storage.Set is checked to stay unchanged (zero-copy views of request buffers). " +
			"About every fifth middleware / store-API request runs two program fragments as two tasks on the SAME *Session object (a goroutine the handler started): A = {0-2 Set/Delete, Save (store API)}, B = {Destroy | Regenerate | Reset, then maybe Set and Save}, interleaved at the session's and middleware's mutex operations and around every storage call; the model plays all orders of the calls and the ids involved are presented again by the following requests. " +
			"distinct = hash of (configuration, per request (kind of presented id, expected live/fresh, program)); non-trivial = at least one stale or forged id was presented and one session outlived a request",
		Assumptions: []string{
			"probes within 2 s of an idle deadline accept either outcome (the storage clock has 1 s granularity); absolute deadlines are exact",
			"session ids come from a counter-based KeyGenerator so that 'server-generated during this request' can be decided exactly; the default UUID generator is not exercised",
			"in concurrent mode each session is used by one client at a time (concurrent requests writing to one session are last-writer-wins by design and not modelled)",
			"two goroutines on one *Session object: every call (Set, Delete, Save, Destroy, Regenerate, Reset) is taken as indivisible and the calls of the two fragments may interleave in any order; what a later request sees under the old and under the new id must be what one of these orders leaves behind. A Save that comes after a Destroy in such an order stores the session again under the same id with the data set since the Destroy (this is what the session object does sequentially, too); only data from before the Destroy must not come back. With an absolute timeout configured the store-API pair Destroy || Save is not generated (Destroy clears the absolute deadline together with the data; which deadline a session saved again afterwards has is left open)",
			"after an injected storage error that the operation reported (or that made the middleware panic) the run stops following that history; only 'never run under the presented id' is required of the failed request",
			"the storage under test always receives a private copy of the key (KeyGuard): a key that changes after Storage.Set is reported by its own oracle, its consequences (which depend on Go's per-map hash seed) are not played out",
		},
		Components: map[string]string{
			"session middleware, store, data, gob codec": "real (instrumented)",
			"internal/storage/memory + GC":               "real (instrumented), chosen per run",
			"external storage":                           "stub SimStorage",
			"clients":                                    "stub: present ids from the configured source, read the issued id from Set-Cookie / response header",
			"fasthttp accept loop / worker pool":         "stub (harness.Conn); codecs real",
		},
	})
}

type sessModel struct {
	data      map[string]string
	idleUntil time.Time
	absUntil  time.Time // zero = none
}

type sessStep struct {
	kind string // set del destroy reset regen idle
	k, v string
	d    time.Duration
}

type sessOp struct {
	id, client int
	route      string // mw | store | byid | delete | resetall
	present    string // id presented ("" none)
	presKind   string
	targetID   string // byid / delete
	prog       []sessStep
	save       bool // store route: call Save
	// observed
	obs      sessObs
	status   int
	emitted  string // id emitted via cookie/header ("" none, "-" expired)
	genIDs   []string
	start    time.Time
	end      time.Time
	panicked string
	getErr   bool // an injected storage Get error hit this request
	delErr   bool // an injected storage Delete error hit this request
	twice    bool // store route: Get + Save + Release once before the actual Get
	badSave  bool // the program ends by storing a value gob cannot encode: the save must fail
	// par: the handler runs fragA and fragB as two tasks on the SAME *Session object (a goroutine started by
	// the handler); prog is empty then
	par          bool
	fragA, fragB []sessStep
	parPreempt   int
}

// the outcomes a request with two concurrent fragments may have left for one id: resolved by the next
// observation of that id
type sessPending struct {
	alts    []*sessModel // nil entry = the id yields no session
	retired bool         // the id is the one Destroy / Regenerate / Reset of that request retired
	by      int          // op id
	what    string
	save    bool // one of the fragments called Save (store API): a Save may have overlapped the retiring call
}

// a type that is never registered with gob: saving a session holding it fails
type sessUnregistered struct{ X int }

type sessObs struct {
	ID    string            `json:"id"`
	Fresh bool              `json:"fresh"`
	Data  map[string]string `json:"data"`
	Err   string            `json:"err"`
	// after the program
	EndID string `json:"end_id"`
}

func sessionMain(s *simrt.Sim, info *harness.RunInfo) {
	if s.Chance(60) {
		sessionExpiryRace(s, info)
		return
	}
	source := simrt.PickS(s, "cookie", "header", "query")
	useSim := s.Chance(500)
	idle := time.Duration(s.Range(3, 6)) * time.Second
	if s.Chance(120) {
		idle = 500 * time.Millisecond // below the one-second granularity of the storages: such a session may be gone at once, never live on
	}
	var abs time.Duration
	if s.Chance(400) {
		abs = idle + time.Duration(s.Range(3, 8))*time.Second
	}
	concurrent := s.Chance(400)
	// some runs with an absolute timeout keep one session busy (requests closer together than the
	// idle timeout, mostly plain data operations), so that the absolute deadline is what ends it
	absFocus := abs > 0 && s.Chance(500)
	faults := s.Chance(250)
	info.Faults = faults
	nclients := s.Range(2, harness.Scale(4, 6))
	if absFocus {
		nclients = min(nclients, 2)
	}
	preempt := 0
	if concurrent {
		preempt = simrt.PickS(s, 150, 50, 400)
	}
	harness.StartCoarseClock(s, 0)

	const name = "sid"
	var ops []*sessOp
	opOfTask := map[int]*sessOp{}
	nid := 0
	issued := map[string]bool{}
	cfg := session.Config{
		IdleTimeout:     idle,
		AbsoluteTimeout: abs,
		KeyLookup:       source + ":" + name,
		KeyGenerator: func() string {
			nid++
			id := fmt.Sprintf("sid-%04d-%s", nid, strings.Repeat("z", 8))
			issued[id] = true
			if op := opOfTask[simrt.TaskID()]; op != nil {
				op.genIDs = append(op.genIDs, id)
			}
			return id
		},
	}
	if faults {
		useSim = true
	}
	var guard *harness.KeyGuard
	var simSt *harness.SimStorage
	if useSim {
		st := harness.NewSimStorage(s, "session-store")
		simSt = st
		st.HideSizes = true
		if faults {
			// separate fault mixes: a failing Get ends the part of the run the model can follow, so
			// runs that are to reach late states (absolute expiry, regenerated ids) with a failing
			// Delete need a stratum without Get faults
			switch s.Draw(3) {
			case 0:
				st.FailGet = simrt.PickS(s, 80, 200)
				st.FailDel = simrt.PickS(s, 0, 150)
			case 1:
				st.FailDel = simrt.PickS(s, 150, 500, 900)
			default:
				st.FailGet = simrt.PickS(s, 30, 80)
				st.FailDel = simrt.PickS(s, 300, 600)
			}
			st.OnFault = func(kind string) {
				if op := opOfTask[simrt.TaskID()]; op != nil {
					if kind == "del" {
						op.delErr = true
					} else {
						op.getErr = true
					}
				}
			}
		}
		guard = harness.NewKeyGuard(s, st, "C15.storage-key-aliases-request-buffer")
	} else {
		guard = harness.NewKeyGuard(s, simexport.NewMemoryStorage(), "C15.storage-key-aliases-request-buffer")
	}
	cfg.Storage = guard
	cfgLine := fmt.Sprintf("source=%s storage=%s idle=%v abs=%v concurrent=%v clients=%d preempt=%d faults=%v absFocus=%v", source,
		map[bool]string{false: "storage-memory", true: "sim"}[useSim], idle, abs, concurrent, nclients, preempt, faults, absFocus)
	s.Logf("cfg %s", cfgLine)

	mw, store := session.NewWithStore(cfg)
	app := fiber.New()

	observe := func(get func(any) any, keys []any) map[string]string {
		out := map[string]string{}
		for _, k := range keys {
			ks, ok := k.(string)
			if !ok {
				continue // the absolute-expiration marker is internal
			}
			v, _ := get(ks).(string)
			out[strings.Clone(ks)] = strings.Clone(v)
		}
		return out
	}
	runSteps := func(op *sessOp, tag string, steps []sessStep, sess *session.Session, m *session.Middleware) error {
		for _, st := range steps {
			simrt.Yield(500)
			if tag != "" {
				s.Logf("op%d %s: %v", op.id, tag, st)
			}
			switch st.kind {
			case "set":
				if m != nil {
					m.Set(st.k, st.v)
				} else {
					sess.Set(st.k, st.v)
				}
			case "del":
				if m != nil {
					m.Delete(st.k)
				} else {
					sess.Delete(st.k)
				}
			case "destroy":
				if m != nil {
					return m.Destroy()
				}
				return sess.Destroy()
			case "reset":
				var err error
				if m != nil {
					err = m.Reset()
				} else {
					err = sess.Reset()
				}
				if err != nil {
					return err
				}
			case "regen":
				if err := sess.Regenerate(); err != nil {
					return err
				}
			case "idle":
				sess.SetIdleTimeout(st.d)
			case "save":
				if m == nil {
					if err := sess.Save(); err != nil {
						return err
					}
				}
			case "setbad":
				sess.Set("bad", sessUnregistered{X: 1})
			}
		}
		return nil
	}
	// two fragments as two tasks on the same session object, interleaved by the scheduler at the mutex
	// operations of the session (and of the middleware) and around every storage call
	seqMode := !concurrent
	runPar := func(op *sessOp, sess *session.Session, m *session.Middleware) error {
		var wg sync.WaitGroup
		var errs [2]error
		if seqMode {
			s.SetPreempt(op.parPreempt)
		}
		for fi, frag := range [][]sessStep{op.fragA, op.fragB} {
			wg.Add(1)
			tag := "frag" + string(rune('A'+fi))
			simrt.GoNamed("op"+strconv.Itoa(op.id)+"-"+tag, func() {
				defer wg.Done()
				tid := simrt.TaskID()
				opOfTask[tid] = op
				defer delete(opOfTask, tid)
				errs[fi] = runSteps(op, tag, frag, sess, m)
				if errs[fi] != nil {
					s.Logf("op%d %s returned %v", op.id, tag, errs[fi])
				} else {
					s.Logf("op%d %s returned nil", op.id, tag)
				}
			})
		}
		join(&wg)
		if seqMode {
			s.SetPreempt(0)
		}
		if errs[0] != nil {
			return errs[0]
		}
		return errs[1]
	}
	runProg := func(op *sessOp, sess *session.Session, m *session.Middleware) error {
		if op.par {
			return runPar(op, sess, m)
		}
		return runSteps(op, "", op.prog, sess, m)
	}
	reply := func(c fiber.Ctx, op *sessOp) error {
		b, _ := json.Marshal(op.obs)
		return c.Send(b)
	}
	app.Get("/mw", mw, func(c fiber.Ctx) error {
		op := ops[atoi(c.Get("X-Op"))]
		m := session.FromContext(c)
		if m == nil {
			op.obs.Err = "no middleware in context"
			return reply(c, op)
		}
		op.obs.ID, op.obs.Fresh = strings.Clone(m.ID()), m.Fresh()
		op.obs.Data = observe(m.Session.Get, m.Session.Keys())
		if err := runProg(op, m.Session, m); err != nil {
			op.obs.Err = err.Error()
		}
		op.obs.EndID = strings.Clone(m.ID())
		return reply(c, op)
	})
	app.Get("/store", func(c fiber.Ctx) error {
		op := ops[atoi(c.Get("X-Op"))]
		if op.twice {
			// e.g. a middleware of the application that touches the session before the handler does
			if first, err := store.Get(c); err == nil {
				if err := first.Save(); err != nil {
					op.obs.Err = err.Error()
				}
				first.Release()
			}
		}
		sess, err := store.Get(c)
		if err != nil {
			op.obs.Err = err.Error()
			return reply(c, op)
		}
		op.obs.ID, op.obs.Fresh = strings.Clone(sess.ID()), sess.Fresh()
		op.obs.Data = observe(sess.Get, sess.Keys())
		destroyed := false
		for _, st := range op.prog {
			if st.kind == "destroy" {
				destroyed = true
			}
		}
		if err := runProg(op, sess, nil); err != nil {
			op.obs.Err = err.Error()
		}
		op.obs.EndID = strings.Clone(sess.ID())
		if op.save && !destroyed {
			if err := sess.Save(); err != nil {
				op.obs.Err = err.Error()
			}
		}
		sess.Release()
		return reply(c, op)
	})
	app.Get("/byid", func(c fiber.Ctx) error {
		op := ops[atoi(c.Get("X-Op"))]
		sess, err := store.GetByID(op.targetID)
		if err != nil {
			if errors.Is(err, session.ErrSessionIDNotFoundInStore) {
				if op.delErr {
					s.Count("probe_getbyid_of_expired_session_could_not_delete_it")
				}
				op.obs.Err = "notfound"
			} else {
				op.obs.Err = err.Error()
			}
			return reply(c, op)
		}
		op.obs.ID, op.obs.Fresh = strings.Clone(sess.ID()), sess.Fresh()
		op.obs.Data = observe(sess.Get, sess.Keys())
		if err := runProg(op, sess, nil); err != nil {
			op.obs.Err = err.Error()
		}
		op.obs.EndID = strings.Clone(sess.ID())
		destroyed := false
		for _, st := range op.prog {
			if st.kind == "destroy" {
				destroyed = true
			}
		}
		if op.save && !destroyed {
			if err := sess.Save(); err != nil {
				op.obs.Err = err.Error()
			}
		}
		sess.Release()
		return reply(c, op)
	})
	app.Get("/delete", func(c fiber.Ctx) error {
		op := ops[atoi(c.Get("X-Op"))]
		if err := store.Delete(op.targetID); err != nil {
			op.obs.Err = err.Error()
		}
		return reply(c, op)
	})
	app.Get("/resetall", func(c fiber.Ctx) error {
		op := ops[atoi(c.Get("X-Op"))]
		if err := store.Reset(); err != nil {
			op.obs.Err = err.Error()
		}
		return reply(c, op)
	})
	app.Handler()

	// ---- reference model ----
	live := map[string]*sessModel{}
	type verdict int
	const (
		dead verdict = iota
		alive
		either
	)
	status := func(id string, now time.Time) verdict {
		m := live[id]
		if m == nil {
			return dead
		}
		if !m.absUntil.IsZero() && now.After(m.absUntil) {
			return dead
		}
		d := m.idleUntil.Sub(now)
		switch {
		case d > 2*time.Second:
			return alive
		case d < -2*time.Second:
			return dead
		}
		return either
	}
	copyData := func(d map[string]string) map[string]string {
		out := map[string]string{}
		for k, v := range d {
			out[k] = v
		}
		return out
	}
	sameData := func(a, b map[string]string) bool {
		if len(a) != len(b) {
			return false
		}
		for k, v := range a {
			if w, ok := b[k]; !ok || w != v {
				return false
			}
		}
		return true
	}

	// per-client knowledge
	type clientState struct {
		current string
		stale   []string
		probe   []string // ids to present next (left by a request with concurrent fragments)
	}
	pending := map[string]*sessPending{}
	clients := make([]*clientState, nclients)
	for i := range clients {
		clients[i] = &clientState{}
	}
	var modelMu sync.Mutex // documentation only: one task runs at a time
	_ = &modelMu
	staleUsed, outlived := 0, 0
	stopped := false
	h := newHasher().str(cfgLine)

	// one request: generate, execute, check against the model, update the model
	request := func(ci int, conn *harness.Conn) {
		cs := clients[ci]
		op := &sessOp{id: len(ops), client: ci}
		ops = append(ops, op)
		// what to present
		switch k := s.Draw(10); {
		case len(cs.probe) > 0:
			// an id a request with concurrent fragments left in one of several allowed states
			op.present, op.presKind = cs.probe[0], "probe"
			cs.probe = cs.probe[1:]
		case absFocus && cs.current != "" && s.Chance(850):
			op.present, op.presKind = cs.current, "current"
		case k <= 4 && cs.current != "":
			op.present, op.presKind = cs.current, "current"
		case k == 5 && len(cs.stale) > 0:
			op.present, op.presKind = cs.stale[s.Draw(len(cs.stale))], "stale"
		case k == 6:
			op.present, op.presKind = "forged-"+strconv.Itoa(op.id)+"-xxxxxxxx", "forged"
		case k == 7 && !concurrent:
			o := clients[s.Draw(nclients)]
			if o.current != "" {
				op.present, op.presKind = o.current, "other"
			}
		case k == 8 && cs.current != "":
			op.present, op.presKind = cs.current, "current"
		}
		if op.presKind == "" {
			op.presKind = "none"
		}
		// route
		op.route = simrt.PickS(s, "mw", "mw", "mw", "store", "byid", "delete", "resetall")
		if concurrent && op.route == "resetall" {
			op.route = "mw"
		}
		if op.presKind == "probe" && (op.route == "delete" || op.route == "resetall") {
			op.route = "store"
		}
		if absFocus && s.Chance(700) {
			// (a background job looking the session up by its id is one of the things that keep it busy)
			op.route = simrt.PickS(s, "mw", "mw", "mw", "byid")
		}
		if op.route == "byid" || op.route == "delete" {
			op.targetID = op.present
			if op.targetID == "" {
				op.route = "mw"
			}
			if concurrent && op.presKind == "other" {
				op.route = "mw"
			}
		}
		// program
		if (op.route == "mw" || op.route == "store") && !absFocus && s.Chance(200) {
			// two fragments on the same *Session object: A changes data (and saves, store API), B retires the id
			op.par = true
			op.parPreempt = simrt.PickS(s, 300, 150, 500)
			for i, n := 0, s.Draw(3); i < n; i++ {
				if s.Chance(200) {
					op.fragA = append(op.fragA, sessStep{kind: "del", k: "k" + strconv.Itoa(s.Draw(3))})
				} else {
					op.fragA = append(op.fragA, sessStep{kind: "set", k: "k" + strconv.Itoa(s.Draw(3)), v: fmt.Sprintf("v%d.a%d", op.id, i)})
				}
			}
			if op.route == "store" && !s.Chance(150) {
				op.fragA = append(op.fragA, sessStep{kind: "save"})
			}
			kind := simrt.PickS(s, "destroy", "regen", "reset")
			if kind == "destroy" && op.route == "store" && abs > 0 {
				// a Save that follows a Destroy stores the session again without the absolute deadline, which
				// Destroy cleared with the data: what deadline that session has is left open here
				kind = simrt.PickS(s, "regen", "reset")
			}
			op.fragB = append(op.fragB, sessStep{kind: kind})
			if kind != "destroy" {
				if s.Chance(300) {
					op.fragB = append(op.fragB, sessStep{kind: "set", k: "k" + strconv.Itoa(s.Draw(3)), v: fmt.Sprintf("v%d.b", op.id)})
				}
				if op.route == "store" && s.Chance(500) {
					op.fragB = append(op.fragB, sessStep{kind: "save"})
				}
			}
		}
		if !op.par && (op.route == "mw" || op.route == "store" || op.route == "byid") {
			n := s.Draw(4)
			kinds := 8
			if absFocus && s.Chance(800) {
				kinds = 4 // set / del only
			}
			for i := 0; i < n; i++ {
				switch s.Draw(kinds) {
				case 0, 1, 2:
					op.prog = append(op.prog, sessStep{kind: "set", k: "k" + strconv.Itoa(s.Draw(3)), v: fmt.Sprintf("v%d.%d", op.id, i)})
				case 3:
					op.prog = append(op.prog, sessStep{kind: "del", k: "k" + strconv.Itoa(s.Draw(3))})
				case 4:
					op.prog = append(op.prog, sessStep{kind: "regen"})
				case 5:
					op.prog = append(op.prog, sessStep{kind: "reset"})
				case 6:
					op.prog = append(op.prog, sessStep{kind: "idle", d: time.Duration(s.Range(2, 9)) * time.Second})
				case 7:
					op.prog = append(op.prog, sessStep{kind: "destroy"})
					i = n
				}
				if op.route == "store" && s.Chance(300) {
					op.prog = append(op.prog, sessStep{kind: "save"}) // several operations inside one request
				}
			}
			if op.route == "store" && s.Chance(250) && idle >= time.Second {
				// (with a sub-second idle timeout the first Get + Save of the request re-saves the session with a
				// lifetime below the storages' granularity: whether the second Get still finds it is not asked)
				op.twice = true
			}
			if (op.route == "mw" || op.route == "store") && s.Chance(80) {
				last := ""
				if len(op.prog) > 0 {
					last = op.prog[len(op.prog)-1].kind
				}
				if last != "destroy" {
					op.prog = append(op.prog, sessStep{kind: "setbad"})
					op.badSave = true
					op.save = true
				}
			}
			if op.route == "byid" {
				// GetByID has no request context: keep to data operations
				var p []sessStep
				for _, st := range op.prog {
					if st.kind == "set" || st.kind == "del" || st.kind == "destroy" || st.kind == "save" {
						p = append(p, st)
					}
				}
				op.prog = p
			}
			op.save = s.Chance(700)
		}
		req := harness.Req{Path: "/" + op.route, Headers: [][2]string{{"X-Op", strconv.Itoa(op.id)}}}
		if op.present != "" && (op.route == "mw" || op.route == "store") {
			switch source {
			case "cookie":
				req.Headers = append(req.Headers, [2]string{"Cookie", name + "=" + op.present})
			case "header":
				req.Headers = append(req.Headers, [2]string{name, op.present})
			case "query":
				req.Path += "?" + name + "=" + op.present
			}
		}
		opOfTask[simrt.TaskID()] = op
		op.start = time.Now()
		pre := status(op.present, op.start)
		if m := live[op.present]; m != nil && !m.absUntil.IsZero() && op.start.After(m.absUntil) && m.idleUntil.Sub(op.start) > 2*time.Second {
			s.Count("probe_absolute_deadline_passed_on_a_busy_session")
		}
		if op.route == "byid" || op.route == "delete" {
			pre = status(op.targetID, op.start)
		}
		if op.par {
			s.Logf("op%d client%d %s present=%q(%s) CONCURRENT fragA=%v fragB=%v model=%d pending=%v t=%s", op.id, ci, op.route, op.present, op.presKind, op.fragA, op.fragB, pre, pending[op.present] != nil, op.start.Format("04:05.000"))
		} else {
			s.Logf("op%d client%d %s present=%q(%s) target=%q prog=%v save=%v model=%d pending=%v t=%s", op.id, ci, op.route, op.present, op.presKind, op.targetID, op.prog, op.save, pre, pending[op.present] != nil, op.start.Format("04:05.000"))
		}
		var resp *harness.Resp
		func() {
			defer func() {
				if r := recover(); r != nil {
					op.panicked = fmt.Sprint(r)
				}
			}()
			resp = conn.Do(req.Bytes())
		}()
		op.end = time.Now()
		delete(opOfTask, simrt.TaskID())
		if op.getErr {
			// an injected storage error: the request may fail in any way (the middleware
			// panics), but it must not run under the id the client chose
			s.Count("fault_session_get_error_requests")
			if op.panicked == "" && resp != nil {
				if op.obs.ID != "" && op.obs.ID == op.present && status(op.present, op.start) == dead && pending[op.present] == nil {
					s.Fail("C15.adopted-client-id", "op%d: the storage lookup failed and the session runs under the presented id %q, which the server does not hold", op.id, op.present)
				}
			}
			stopped = true // the model cannot follow a request that failed half-way
			return
		}
		if op.delErr && (op.panicked != "" || op.obs.Err != "") {
			// a failed Delete that the operation reported: the state of that session is unknown
			s.Count("fault_session_delete_error_reported")
			// whatever else is unknown now: a session that left the request under another id than the one
			// it was presented under (Regenerate / Reset took effect) must not be held under both
			if simSt != nil && !concurrent && op.present != "" && op.obs.ID == op.present && op.obs.EndID != "" && op.obs.EndID != op.present {
				live := simSt.Live()
				_, oldLive := live[op.present]
				_, newLive := live[op.obs.EndID]
				if newLive {
					s.Count("probe_id_changed_in_request_with_failed_delete")
				}
				if oldLive && newLive {
					s.Fail("C15.previous-id-alive-after-id-change", "op%d %s: the request reported a failed storage Delete (%s); the session came in as %q and left as %q, and the storage now holds a live record under both ids", op.id, op.route, op.obs.Err, op.present, op.obs.EndID)
				}
			}
			stopped = true
			return
		}
		if op.panicked != "" {
			s.Fail("C15.panic", "op%d %s: %s", op.id, op.route, op.panicked)
			return
		}
		op.status = resp.Status
		// what did the server hand out
		if source == "header" {
			op.emitted = resp.Get("Sid")
		} else {
			for _, sc := range resp.Header["Set-Cookie"] {
				if strings.HasPrefix(sc, name+"=") {
					v := strings.SplitN(strings.TrimPrefix(sc, name+"="), ";", 2)[0]
					if strings.Contains(strings.ToLower(sc), "max-age=0") || strings.Contains(sc, "max-age=-") || v == "" {
						op.emitted = "-"
					} else {
						op.emitted = v
					}
				}
			}
		}
		s.Logf("op%d ret status=%d obs=%+v emitted=%q gen=%v", op.id, op.status, op.obs, op.emitted, op.genIDs)
		guard.Check(fmt.Sprintf("after op%d", op.id))
		if op.presKind == "stale" || op.presKind == "forged" {
			staleUsed++
		}

		// ---- check against the model ----
		gen := map[string]bool{}
		for _, g := range op.genIDs {
			gen[g] = true
		}
		isLive := !op.obs.Fresh && op.obs.ID == op.present && op.present != ""
		// with the store API used twice in one request the observed (second) Get may
		// already see the session the first Get created and saved: not "fresh" any more
		isNew := (op.obs.Fresh || (op.twice && op.route == "store")) && len(op.obs.Data) == 0 && op.obs.ID != op.present && gen[op.obs.ID]
		// an id that a request with concurrent fragments left in one of several allowed states: this
		// observation decides which one it was (or that it was none of them)
		switch pkey := map[bool]string{false: op.present, true: op.targetID}[op.route == "byid" || op.route == "delete"]; {
		case op.route == "resetall":
			for k := range pending {
				delete(pending, k)
			}
		case pending[pkey] == nil:
		case op.route == "delete":
			delete(pending, pkey)
		case op.route != "byid" && op.obs.ID == "":
			// the request failed before the handler saw a session: reported below
			delete(pending, pkey)
		default:
			pd := pending[pkey]
			delete(pending, pkey)
			fits := func(v verdict, m *sessModel) bool {
				sawIt, sawNone := isLive && m != nil && sameData(op.obs.Data, m.data), isNew
				if op.route == "byid" {
					sawIt = op.obs.Err == "" && op.obs.ID == pkey && m != nil && sameData(op.obs.Data, m.data)
					sawNone = op.obs.Err == "notfound"
				}
				switch v {
				case alive:
					return sawIt
				case dead:
					return sawNone
				}
				return sawIt || sawNone
			}
			found := false
			var allowed []string
			for _, alt := range pd.alts {
				if alt == nil {
					delete(live, pkey)
					allowed = append(allowed, "no session")
				} else {
					live[pkey] = alt
					allowed = append(allowed, fmt.Sprintf("session with data %v", alt.data))
				}
				if fits(status(pkey, op.start), live[pkey]) {
					found = true
					break
				}
			}
			if !found {
				delete(live, pkey)
				switch {
				case pd.retired && op.obs.ID == pkey && !pd.save:
					s.Fail("C15.stale-id-yields-session", "op%d %s presented %q (%s), the id that op%d retired (%s, two goroutines on one *Session object, all calls returned nil). In every order of these calls the id afterwards yields one of [%s], yet this request saw id=%q fresh=%v data=%v err=%q",
						op.id, op.route, pkey, op.presKind, pd.by, pd.what, strings.Join(allowed, " | "), op.obs.ID, op.obs.Fresh, op.obs.Data, op.obs.Err)
				case pd.retired && op.obs.ID == pkey:
					s.Fail("C15.concurrent-save-revives-retired-id", "op%d %s presented %q, the id that op%d retired (%s) on the same *Session object on which another goroutine ran Save; all calls returned nil. In every order of these calls the id afterwards yields one of [%s], yet this request saw id=%q fresh=%v data=%v err=%q: a Save that overlapped the Destroy / Regenerate / Reset has put the session back under the retired id",
						op.id, op.route, pkey, pd.by, pd.what, strings.Join(allowed, " | "), op.obs.ID, op.obs.Fresh, op.obs.Data, op.obs.Err)
				default:
					s.Fail("C15.data-after-concurrent-calls", "op%d %s presented %q, which op%d left behind (%s, two goroutines on one *Session object, all calls returned nil). In every order of these calls the id afterwards yields one of [%s], yet this request saw id=%q fresh=%v data=%v err=%q",
						op.id, op.route, pkey, pd.by, pd.what, strings.Join(allowed, " | "), op.obs.ID, op.obs.Fresh, op.obs.Data, op.obs.Err)
				}
				return
			}
			s.Count("probe_concurrent_outcome_resolved")
			pre = status(pkey, op.start)
		}
		mstate := live[op.present]
		switch op.route {
		case "mw", "store":
			if op.obs.Err != "" && op.obs.ID == "" {
				s.Fail("C15.error", "op%d %s failed: %s", op.id, op.route, op.obs.Err)
				return
			}
			switch {
			case pre == alive && !isLive:
				s.Fail("C15.persistent", "op%d presented live session %q (data %v): handler saw id=%q fresh=%v data=%v", op.id, op.present, mstate.data, op.obs.ID, op.obs.Fresh, op.obs.Data)
				return
			case pre == alive && !sameData(op.obs.Data, mstate.data):
				s.Fail("C15.data", "op%d session %q: handler saw %v, last saved %v", op.id, op.present, op.obs.Data, mstate.data)
				return
			case pre == dead && !isNew:
				why := "an id the server does not hold (forged / destroyed / regenerated / reset / expired)"
				if m := live[op.present]; m != nil && op.obs.ID == op.present && !m.absUntil.IsZero() && op.start.After(m.absUntil) {
					s.Fail("C15.abs-timeout-not-enforced", "op%d presented %q whose absolute deadline %s has passed (now %s): handler still saw the session, data=%v", op.id, op.present, m.absUntil.Format("04:05.000"), op.start.Format("04:05.000"), op.obs.Data)
				} else if m != nil && op.obs.ID == op.present {
					s.Fail("C15.idle-timeout-not-enforced", "op%d presented %q whose idle deadline %s has passed by more than 2 s (now %s): handler still saw the session, data=%v", op.id, op.present, m.idleUntil.Format("04:05.000"), op.start.Format("04:05.000"), op.obs.Data)
				} else if issued[op.present] && op.obs.ID == op.present {
					s.Fail("C15.stale-id-yields-session", "op%d presented %q (%s), which is %s, yet the handler saw id=%q fresh=%v data=%v", op.id, op.present, op.presKind, why, op.obs.ID, op.obs.Fresh, op.obs.Data)
				} else if op.obs.ID == op.present && op.present != "" {
					s.Fail("C15.adopted-client-id", "op%d presented the client-chosen id %q and the session runs under it (fresh=%v data=%v)", op.id, op.present, op.obs.Fresh, op.obs.Data)
				} else {
					s.Fail("C15.fresh-empty", "op%d presented %q (%s): expected an empty fresh session under an id generated in this request, handler saw id=%q fresh=%v data=%v generated=%v", op.id, op.present, op.presKind, op.obs.ID, op.obs.Fresh, op.obs.Data, op.genIDs)
				}
				return
			case pre == either && !isNew && !(isLive && sameData(op.obs.Data, mstate.data)):
				s.Fail("C15.data", "op%d presented %q near its idle deadline: neither the saved session nor a fresh empty one: id=%q fresh=%v data=%v", op.id, op.present, op.obs.ID, op.obs.Fresh, op.obs.Data)
				return
			}
			// apply the program to the model
			wasLive := isLive
			curID := op.obs.ID
			gi := 0 // next unused id of those generated in this request
			for k, g := range op.genIDs {
				if g == curID {
					gi = k + 1
				}
			}
			var cur *sessModel
			if wasLive {
				cur = &sessModel{data: copyData(mstate.data), absUntil: mstate.absUntil}
				outlived++
			} else {
				cur = &sessModel{data: map[string]string{}}
				if abs > 0 {
					cur.absUntil = op.start.Add(abs)
				}
				if pre != dead && op.present != "" {
					// the near-deadline session turned out to be gone
					delete(live, op.present)
				}
			}
			nextID := func() (string, bool) {
				if gi >= len(op.genIDs) {
					return "", false
				}
				gi++
				return op.genIDs[gi-1], true
			}
			if op.par {
				// Two goroutines used the same *Session object. Each call (Set, Delete, Save, Destroy, Regenerate,
				// Reset) is taken as one indivisible step; the two fragments may interleave in any way. The model
				// plays every interleaving and collects what each leaves behind for the id the request started
				// with (X) and for the id Regenerate / Reset generated (Y).
				if op.obs.Err != "" {
					s.Fail("C15.error", "op%d %s: a call of the concurrent fragments failed without an injected fault: %s", op.id, op.route, op.obs.Err)
					return
				}
				idX, idY := curID, ""
				if k := op.fragB[0].kind; k == "regen" || k == "reset" {
					var ok bool
					if idY, ok = nextID(); !ok {
						s.Fail("C15.new-id", "op%d: Reset/Regenerate did not generate a new session id (generated in this request: %v)", op.id, op.genIDs)
						return
					}
				}
				type parState struct {
					data      map[string]string
					absUntil  time.Time
					id        string
					recs      map[string]*sessModel // stored (non-nil) or deleted (nil) by this request
					emit      string
					destroyed bool
				}
				clone := func(st parState) parState {
					c := st
					c.data = copyData(st.data)
					c.recs = map[string]*sessModel{}
					for k, v := range st.recs {
						c.recs[k] = v
					}
					return c
				}
				save := func(st *parState) {
					st.recs[st.id] = &sessModel{data: copyData(st.data), absUntil: st.absUntil, idleUntil: op.end.Add(idle)}
					st.emit = st.id
				}
				apply := func(st *parState, step sessStep) {
					switch step.kind {
					case "set":
						st.data[step.k] = step.v
					case "del":
						delete(st.data, step.k)
					case "save":
						if op.route == "store" { // through the middleware Save is left to the end of the request
							save(st)
						}
					case "destroy":
						st.data = map[string]string{}
						st.absUntil = time.Time{}
						st.recs[st.id] = nil
						st.emit = "-"
						st.destroyed = true
					case "regen":
						st.recs[st.id] = nil
						st.id = idY
					case "reset":
						st.data = map[string]string{}
						st.absUntil = time.Time{}
						if abs > 0 {
							st.absUntil = op.start.Add(abs)
						}
						st.recs[st.id] = nil
						st.emit = "-"
						st.id = idY
					}
				}
				var outs []parState
				var play func(i, j int, st parState)
				play = func(i, j int, st parState) {
					if i == len(op.fragA) && j == len(op.fragB) {
						if op.route == "mw" && !st.destroyed {
							save(&st)
						}
						outs = append(outs, st)
						return
					}
					if i < len(op.fragA) {
						c := clone(st)
						apply(&c, op.fragA[i])
						play(i+1, j, c)
					}
					if j < len(op.fragB) {
						c := clone(st)
						apply(&c, op.fragB[j])
						play(i, j+1, c)
					}
				}
				play(0, 0, parState{data: copyData(cur.data), absUntil: cur.absUntil, id: idX, recs: map[string]*sessModel{}})
				endID := outs[0].id
				if op.obs.EndID != endID {
					s.Fail("C15.new-id", "op%d: the session id after the concurrent fragments is %q, expected %q (ids generated in this request: %v)", op.id, op.obs.EndID, endID, op.genIDs)
					return
				}
				// what the client was told: the last of the calls that write the cookie / header
				emitOK := false
				var emits []string
				for _, o := range outs {
					emits = append(emits, o.emit)
					if o.emit == op.emitted || (source == "header" && (o.emit == "-" || o.emit == "") && (op.emitted == "" || op.emitted == "-")) {
						emitOK = true
					}
				}
				if op.emitted == "-" && mstate != nil && !mstate.absUntil.IsZero() && op.start.After(mstate.absUntil) {
					emitOK = true // the presented session had passed its absolute deadline (see below)
				}
				if !emitOK {
					s.Fail("C15.emitted-id", "op%d (concurrent fragments A=%v B=%v): the response hands out %q; the last call that tells the client an id leaves one of %q", op.id, op.fragA, op.fragB, op.emitted, emits)
					return
				}
				what := fmt.Sprintf("A=%v B=%v", op.fragA, op.fragB)
				hadSave := false
				for _, st := range append(append([]sessStep{}, op.fragA...), op.fragB...) {
					hadSave = hadSave || (st.kind == "save" && op.route == "store")
				}
				nalts := 0
				for _, id := range []string{idX, idY} {
					if id == "" {
						continue
					}
					var alts []*sessModel
					seen := map[string]bool{}
					for _, o := range outs {
						alt, touched := o.recs[id]
						if !touched && id == idX && wasLive {
							alt = mstate
						}
						key := "none"
						if alt != nil {
							ks := make([]string, 0, len(alt.data))
							for k := range alt.data {
								ks = append(ks, k)
							}
							sort.Strings(ks)
							key = alt.absUntil.String()
							for _, k := range ks {
								key += "|" + k + "=" + alt.data[k]
							}
						}
						if !seen[key] {
							seen[key] = true
							alts = append(alts, alt)
						}
					}
					nalts += len(alts)
					delete(pending, id)
					// also with a single outcome the id is resolved by its next observation, so that a
					// mismatch is reported with the calls that led to it
					delete(live, id)
					pending[id] = &sessPending{alts: alts, retired: id == idX, by: op.id, what: what, save: hadSave}
					if len(alts) > 1 {
						s.Count("probe_concurrent_fragments_with_several_outcomes")
					}
					if s.Tracing() {
						for _, a := range alts {
							if a == nil {
								s.Logf("op%d model: %q may yield no session", op.id, id)
							} else {
								s.Logf("op%d model: %q may yield data %v", op.id, id, a.data)
							}
						}
					}
				}
				s.Count("probe_concurrent_fragments_on_one_session")
				if wasLive && len(mstate.data) > 0 {
					s.Count("probe_concurrent_fragments_on_loaded_session_with_data")
				}
				cs := clients[ci]
				for _, id := range []string{cs.current, op.present, idX} {
					if id != "" && id != endID {
						cs.stale = append(cs.stale, id)
					}
				}
				if op.presKind != "other" {
					cs.current = endID
				}
				cs.probe = append(cs.probe, idX)
				if idY != "" {
					cs.probe = append(cs.probe, idY)
				}
				h.str(op.route).str("par").str(op.fragB[0].kind).int(len(op.fragA)).int(len(op.fragB)).int(nalts).int(int(pre))
				return
			}
			idleFor := idle
			destroyed := false
			expectEmit := "" // "" nothing handed out, "-" expired, otherwise the id
			if op.twice && op.route == "store" {
				// the first Get + Save of this request. It need not have run under the id the second Get
				// observed: when the presented session had passed its absolute deadline, the first Get
				// replaced it by a new one (saved here), while the request still carries the old cookie,
				// so the second Get starts yet another fresh session
				firstID := curID
				if !wasLive && len(op.genIDs) > 0 {
					firstID = op.genIDs[0]
				}
				live[firstID] = &sessModel{data: copyData(cur.data), absUntil: cur.absUntil, idleUntil: op.end.Add(idle)}
				expectEmit = firstID
			}
			saveNow := func() {
				cp := &sessModel{data: copyData(cur.data), absUntil: cur.absUntil, idleUntil: op.end.Add(idleFor)}
				live[curID] = cp
				expectEmit = curID
			}
			for _, st := range op.prog {
				if destroyed {
					break
				}
				ok := true
				switch st.kind {
				case "set":
					cur.data[st.k] = st.v
				case "del":
					delete(cur.data, st.k)
				case "idle":
					idleFor = st.d
				case "save":
					if op.route == "store" {
						saveNow()
					}
				case "destroy":
					delete(live, curID)
					destroyed = true
					expectEmit = "-"
				case "reset":
					delete(live, curID)
					cur = &sessModel{data: map[string]string{}}
					if abs > 0 {
						cur.absUntil = op.start.Add(abs)
					}
					idleFor = idle
					expectEmit = "-"
					curID, ok = nextID()
				case "regen":
					delete(live, curID)
					curID, ok = nextID()
				}
				if !ok {
					s.Fail("C15.new-id", "op%d: Reset/Regenerate did not generate a new session id (generated in this request: %v)", op.id, op.genIDs)
					return
				}
			}
			if curID != op.obs.EndID && !destroyed {
				s.Fail("C15.new-id", "op%d: the session id after the program is %q, expected %q (ids generated in this request: %v)", op.id, op.obs.EndID, curID, op.genIDs)
				return
			}
			if !destroyed && (op.route == "mw" || op.save) && !op.badSave {
				saveNow()
			}
			if op.badSave && !destroyed {
				// the save fails in the encoder (after the cookie was written): nothing is
				// stored, whatever was saved before stays; the client may hold any id now
				s.Count("probe_save_failed_in_encoder")
				if op.emitted != "" && op.emitted != "-" && op.presKind != "other" {
					if clients[ci].current != "" && clients[ci].current != op.emitted {
						clients[ci].stale = append(clients[ci].stale, clients[ci].current)
					}
					clients[ci].current = op.emitted
				}
				h.str(op.route).str("badsave")
				return
			}
			// what the client was told
			cs := clients[ci]
			switch {
			case source == "header":
				if expectEmit != "" && expectEmit != "-" && op.emitted != expectEmit {
					s.Fail("C15.emitted-id", "op%d saved the session under %q but the response header hands out %q", op.id, expectEmit, op.emitted)
					return
				}
			case op.emitted == "-" && expectEmit == "" && mstate != nil && !mstate.absUntil.IsZero() && op.start.After(mstate.absUntil):
				// the presented session had passed its absolute deadline: the server may tell the
				// client to drop that cookie even though the request saved nothing new
				s.Count("probe_expired_cookie_handed_out_for_absolutely_expired_session")
			case op.emitted != expectEmit:
				if expectEmit == "-" {
					s.Fail("C15.destroy-cookie", "op%d destroyed / reset the session without saving a new one, but the response hands out id %q", op.id, op.emitted)
				} else {
					s.Fail("C15.emitted-id", "op%d: the response hands out %q, the session was last saved under %q", op.id, op.emitted, expectEmit)
				}
				return
			}
			remember := func(id string) {
				if id != "" {
					cs.stale = append(cs.stale, id)
				}
			}
			switch expectEmit {
			case "":
			case "-":
				remember(cs.current)
				if op.present != cs.current {
					remember(op.present)
				}
				cs.current = ""
			default:
				if cs.current != expectEmit {
					remember(cs.current)
				}
				if op.present != expectEmit && op.present != cs.current {
					remember(op.present)
				}
				if op.presKind != "other" {
					cs.current = expectEmit
				}
			}
		case "byid":
			switch {
			case pre == alive && op.obs.Err != "":
				s.Fail("C15.persistent", "op%d GetByID(%q) of a live session failed: %s", op.id, op.targetID, op.obs.Err)
				return
			case pre == alive && (op.obs.ID != op.targetID || !sameData(op.obs.Data, live[op.targetID].data)):
				s.Fail("C15.data", "op%d GetByID(%q): saw id=%q data=%v, last saved %v", op.id, op.targetID, op.obs.ID, op.obs.Data, live[op.targetID].data)
				return
			case pre == dead && op.obs.Err != "notfound":
				s.Fail("C15.stale-id-yields-session", "op%d GetByID(%q) (%s): the server does not hold this session, got err=%q id=%q data=%v", op.id, op.targetID, op.presKind, op.obs.Err, op.obs.ID, op.obs.Data)
				return
			}
			if op.obs.Err == "" {
				m := live[op.targetID]
				if m == nil {
					return
				}
				outlived++
				cur := &sessModel{data: copyData(m.data), absUntil: m.absUntil, idleUntil: m.idleUntil}
				destroyed := false
				for _, st := range op.prog {
					switch st.kind {
					case "set":
						cur.data[st.k] = st.v
					case "del":
						delete(cur.data, st.k)
					case "destroy":
						destroyed = true
					}
				}
				if destroyed {
					delete(live, op.targetID)
				} else if op.save {
					cur.idleUntil = op.end.Add(idle)
					live[op.targetID] = cur
				}
			} else if pre == either {
				delete(live, op.targetID)
			}
		case "delete":
			if op.obs.Err != "" {
				s.Fail("C15.error", "op%d store.Delete(%q): %s", op.id, op.targetID, op.obs.Err)
			}
			delete(live, op.targetID)
		case "resetall":
			if op.obs.Err != "" {
				s.Fail("C15.error", "op%d store.Reset(): %s", op.id, op.obs.Err)
			}
			for k := range live {
				delete(live, k)
			}
		}
		h.str(op.route).str(op.presKind).int(int(pre)).int(len(op.prog))
	}

	doRequest := func(ci int, conn *harness.Conn) {
		request(ci, conn)
		// the ids a request with concurrent fragments touched are mostly looked at right away
		for len(clients[ci].probe) > 0 && !s.Failed() && !stopped && s.Chance(750) {
			request(ci, conn)
		}
	}
	thinks := []time.Duration{0, 0, 500 * time.Millisecond, idle - 2500*time.Millisecond, idle + 2500*time.Millisecond}
	if abs > 0 {
		thinks = append(thinks, abs-idle+500*time.Millisecond)
	}
	if absFocus {
		thinks = []time.Duration{0, 500 * time.Millisecond, time.Second, idle - 2500*time.Millisecond, idle - 2500*time.Millisecond}
		if idle >= 3*time.Second {
			thinks = append(thinks, idle-time.Second, idle-time.Second)
		}
	}
	s.SetPreempt(preempt)
	if concurrent {
		var wg sync.WaitGroup
		for ci := 0; ci < nclients; ci++ {
			wg.Add(1)
			n := s.Range(2, harness.Scale(8, 14))
			if absFocus {
				n = s.Range(5, harness.Scale(11, 16))
			}
			plan := make([]time.Duration, n)
			for i := range plan {
				plan[i] = thinks[s.Draw(len(thinks))]
			}
			simrt.GoNamed("client"+strconv.Itoa(ci), func() {
				defer wg.Done()
				conn := harness.NewConn(app, "10.0.0."+strconv.Itoa(ci+1))
				for _, th := range plan {
					if s.Failed() || stopped {
						return
					}
					simrt.Sleep(th)
					doRequest(ci, conn)
				}
			})
		}
		join(&wg)
	} else {
		conns := make([]*harness.Conn, nclients)
		for i := range conns {
			conns[i] = harness.NewConn(app, "10.0.0."+strconv.Itoa(i+1))
		}
		n := s.Range(4, harness.Scale(24, 48))
		for i := 0; i < n && !s.Failed() && !stopped; i++ {
			simrt.Sleep(thinks[s.Draw(len(thinks))])
			ci := s.Draw(nclients)
			doRequest(ci, conns[ci])
		}
	}
	s.SetPreempt(0)
	if staleUsed > 0 {
		s.Count("probe_runs_presenting_stale_or_forged_id")
	}
	if outlived > 0 {
		s.Count("probe_runs_with_session_reloaded")
	}
	ids := make([]string, 0, len(live))
	for k := range live {
		ids = append(ids, k)
	}
	sort.Strings(ids)
	info.StateHash = h.int(len(ids)).h
	info.Nontrivial = staleUsed > 0 && outlived > 0
	info.Sample = map[string]any{"config": cfgLine, "requests": len(ops)}
}

// ---- two requests of one client at the instant its session record expires ------------------------
//
// The counterpart of the csrf engine's scenario (the big histories are sequential per client): one client, a
// session with data and an idle timeout of 3 s on the in-tree memory storage, whose collector ticks every second on
// the grid of the coarse clock. At the instant at which the record is due to expire the client sends two requests
// with its cookie, as two tasks. A request that was handed the session with its data has loaded it alive and saves it
// when it ends (which renews the lifetime), so 1.25 s later the id still yields the data: it was neither destroyed
// nor regenerated, and 1.25 s is well inside the renewed lifetime whichever side of the tick the save fell on.
func sessionExpiryRace(s *simrt.Sim, info *harness.RunInfo) {
	preempt := simrt.PickS(s, 400, 250, 600)
	phase := s.Draw(1000)
	// slow: the first request is handed the session half a second before the record expires and stays in its
	// handler until the tick after that (the one at which the storage's collector first sees the record as
	// expired), so that its save falls on that instant
	slow := s.Chance(500)
	var holdUntil time.Time
	cfgLine := fmt.Sprintf("expiry-race preempt=%d phase=%d slow=%v", preempt, phase, slow)
	s.Logf("cfg %s", cfgLine)
	simrt.Sleep(time.Duration(phase) * time.Millisecond)
	harness.StartCoarseClock(s, 0)
	start := time.Now()
	nid := 0
	cfg := session.Config{IdleTimeout: 3 * time.Second, Storage: simexport.NewMemoryStorageGC(time.Second), KeyGenerator: func() string {
		nid++
		return fmt.Sprintf("race-sid-%04d-%s", nid, strings.Repeat("r", 8))
	}}
	app := fiber.New()
	app.Use(session.New(cfg))
	app.Get("/", func(c fiber.Ctx) error {
		m := session.FromContext(c)
		if c.Query("set") != "" {
			m.Set("user", "alice")
		}
		simrt.Yield(2201)
		body := fmt.Sprintf("fresh=%v user=%v", m.Fresh(), m.Get("user"))
		if c.Query("hold") != "" {
			simrt.Sleep(time.Until(holdUntil))
		}
		return c.SendString(body)
	})
	app.Handler()
	get := func(conn *harness.Conn, path, sid string) (string, string) {
		req := harness.Req{Method: "GET", Path: path}
		if sid != "" {
			req.Headers = [][2]string{{"Cookie", "session_id=" + sid}}
		}
		r := conn.Do(req.Bytes())
		id := ""
		for _, sc := range r.Header["Set-Cookie"] {
			if v, ok := strings.CutPrefix(sc, "session_id="); ok {
				id = strings.SplitN(v, ";", 2)[0]
			}
		}
		return string(r.Body), id
	}
	simrt.Sleep(time.Duration(s.Draw(3))*time.Second + 250*time.Millisecond)
	c0 := harness.NewConn(app, "10.0.0.1")
	_, sid := get(c0, "/?set=1", "")
	if sid == "" {
		s.Fail("C15.harness", "expiry race: no session cookie was issued")
		return
	}
	since := time.Since(start)
	pairAt := start.Add((since/time.Second + 1) * time.Second).Add(2 * time.Second)
	var b1, b2 string
	s.SetPreempt(preempt)
	var wg sync.WaitGroup
	for i, out := range []*string{&b1, &b2} {
		wg.Add(1)
		at, path := pairAt, "/"
		if slow {
			holdUntil = pairAt.Add(time.Second)
			at = holdUntil
			if i == 0 {
				at, path = pairAt.Add(-500*time.Millisecond), "/?hold=1"
			}
		}
		simrt.GoNamed("request"+strconv.Itoa(i+1), func() {
			defer wg.Done()
			conn := harness.NewConn(app, "10.0.0.1")
			simrt.Sleep(time.Until(at))
			*out, _ = get(conn, path, sid)
		})
	}
	join(&wg)
	s.SetPreempt(0)
	simrt.Sleep(1250 * time.Millisecond)
	b3, _ := get(c0, "/", sid)
	s.Logf("expiry race: pair saw %q and %q; 1.25 s later %q", b1, b2, b3)
	const loaded = "fresh=false user=alice"
	sawAlive := b1 == loaded || b2 == loaded
	raced := sawAlive && (b1 != loaded || b2 != loaded)
	if raced {
		s.Count("probe_lookup_raced_with_expiry_of_the_record")
	}
	if sawAlive && b3 != loaded {
		s.Fail("C15.persistent", "expiry race (slow first request: %v): a request was handed session %s with its data around the instant the record was due to expire and saved it when it ended (which renews the idle timeout of 3 s), another request of the client ran as that one ended; 1.25 s later the id yields %q instead of the data: the renewed record is gone although the session was neither destroyed nor regenerated", slow, sid, b3)
	}
	info.StateHash = newHasher().str(cfgLine).str(b1).str(b2).str(b3).h
	info.Nontrivial = raced
	info.Sample = map[string]any{"config": cfgLine}
}
