package engines

import (
	"fmt"
	"sort"
	"strconv"
	"strings"
	"sync"
	"time"

	"github.com/anishathalye/porcupine"
	"github.com/gofiber/fiber/v3"
	"github.com/gofiber/fiber/v3/middleware/limiter"
	recoverer "github.com/gofiber/fiber/v3/middleware/recover"
	"github.com/gofiber/fiber/v3/simexport"

	"verif.local/sim/harness"
	"verif.local/sim/simrt"
)

// C13 — rate limiter. Concurrent clients on a virtual clock; the recorded
// history is checked for linearizability against a sequential model of the
// documented fixed / sliding window algorithm (DESIGN.md A.1).

func init() {
	harness.Register(&harness.Engine{
		Name: "limiter", Property: "C13", Level: "exploration",
		Main:       limiterMain,
		MaxSimTime: 20 * time.Minute,
		Rule: "per run the tape draws algorithm, Max, Expiration, MaxFunc mode, key count, skip options, storage backend, preemption rate, " +
			"2-6 clients x 1-8 timed requests; distinct = different hash of (configuration, per-key sequence of admitted/rejected outcomes with their window resets); " +
			"non-trivial = at least one request was rejected or at least two requests overlapped in the middleware",
		Assumptions: []string{
			"interleavings are explored at the granularity of synchronisation operations, coarse-clock reads, storage calls and handler boundaries (sequentially consistent executions)",
			"the sequential model of DESIGN.md A.1 is the meaning of the documented algorithms; only admission, Retry-After and MaxFunc are compared (X-RateLimit-Remaining/-Reset of admitted requests are not part of the statement)",
			"storages expire entries on the coarse clock like the in-repo storages; storage errors are not injected for this property",
			"porcupine timeouts (30 s) are counted as unknown, never reported",
		},
		Components: map[string]string{
			"limiter middleware, manager, msgp codec": "real",
			"internal/memory storage + its GC":        "real (instrumented)",
			"internal/storage/memory + its GC":        "real (instrumented), chosen per run",
			"external storage":                        "stub SimStorage (copying or aliasing), chosen per run",
			"utils.Timestamp updater":                 "stub daemon on the simulated clock",
			"fasthttp accept loop / worker pool":      "stub (harness.Conn); request/response codecs real; in 15 % of the runs fasthttp's real connection loop (ServeConn) serves the requests over a simulated connection with tape-chosen segmentation and short reads",
			"sync.Mutex / sync.Pool / goroutines":     "simulated by simrt",
		},
	})
}

type limOp struct {
	id, client int
	key        string
	max        int
	bypass     bool
	panics     bool // the handler panics (a recover middleware in front answers 500)
	viaErr     bool // the handler sets the failure status and returns an error
	call, ret  uint64
	hEntry     uint64
	hExit      uint64
	wantStatus int
	durMs      int
	status     int
	retryAfter string
	limit      string
	remaining  string
	reset      string
}

type limIn struct {
	unhit bool
	id    int
	key   string
	max   int
	cands []uint32
	will  bool // an Unhit operation for this hit follows
}

type limOut struct {
	admitted  bool
	reset     int
	remaining int
}

type limState struct {
	started   bool
	end       uint32
	cur, prev int
	pend      string // "id:end;" for hits whose skip-decrement is outstanding
}

type limModelCfg struct {
	sliding   bool
	E         uint32
	cfgMax    int
	useCfgMax bool // deviation probe: sliding window compares against Config.Max
	unhitAny  bool // deviation probe: decrement whatever window is current
}

func limStep(mc limModelCfg, st limState, in limIn, out limOut) []interface{} {
	if in.unhit {
		tag := strconv.Itoa(in.id) + ":"
		i := strings.Index(";"+st.pend, ";"+tag)
		if i < 0 {
			return nil // hit not linearized yet
		}
		rest := st.pend[i:]
		j := strings.IndexByte(rest, ';')
		endStr := rest[len(tag):j]
		st.pend = st.pend[:i] + rest[j+1:]
		end64, _ := strconv.ParseUint(endStr, 10, 32)
		switch {
		case mc.unhitAny:
			st.cur--
		case st.started && st.end == uint32(end64):
			// the hit's window is still the current one: it must be given back
			st.cur--
		case mc.sliding && st.started && st.end == uint32(end64)+mc.E && st.prev > 0:
			// the hit now sits in the previous window: the documentation does
			// not say whether it is still given back, both are accepted
			alt := st
			alt.prev--
			return []interface{}{st, alt}
		}
		return []interface{}{st}
	}
	var res []interface{}
	seen := map[uint32]bool{}
	for _, t := range in.cands {
		if seen[t] {
			continue
		}
		seen[t] = true
		n := st
		switch {
		case !n.started || t >= n.end+mc.E:
			n.prev, n.cur, n.end, n.started = 0, 0, t+mc.E, true
			if mc.unhitAny && !st.started {
				n.cur = st.cur // a stray decrement survives in the probe variant
			}
		case t >= n.end:
			if mc.sliding {
				n.prev, n.cur, n.end = n.cur, 0, n.end+mc.E
			} else {
				n.cur, n.end = 0, t+mc.E
			}
		}
		n.cur++
		reset := int(n.end - t)
		if !out.admitted && reset != out.reset {
			continue // Retry-After must be the time until the window resets
		}
		max := in.max
		var rates []int
		if mc.sliding {
			if mc.useCfgMax {
				max = mc.cfgMax
			}
			num := n.prev * reset
			w := num / int(mc.E)
			rates = append(rates, w+n.cur)
			if num%int(mc.E) == 0 && w > 0 {
				rates = append(rates, w-1+n.cur) // float evaluation may land just below the integer
			}
		} else {
			rates = append(rates, n.cur)
		}
		for _, rate := range rates {
			adm := rate <= max
			if adm != out.admitted {
				continue
			}
			m := n
			if in.will && adm {
				m.pend += fmt.Sprintf("%d:%d;", in.id, n.end)
			}
			res = append(res, m)
			break
		}
	}
	return res
}

func limModel(mc limModelCfg) porcupine.Model {
	nm := porcupine.NondeterministicModel{
		Init: func() []interface{} { return []interface{}{limState{}} },
		Step: func(state, input, output interface{}) []interface{} {
			return limStep(mc, state.(limState), input.(limIn), output.(limOut))
		},
		DescribeOperation: func(input, output interface{}) string {
			return fmt.Sprintf("%+v -> %+v", input, output)
		},
	}
	return nm.ToModel()
}

// limiterSubSecond: an Expiration below one second. Which window the middleware makes of it is its own
// business (the statement does not say); whatever it is, it lasts at least as long as configured, so a
// burst of requests at one instant spans at most two windows.
func limiterSubSecond(s *simrt.Sim, info *harness.RunInfo) {
	sliding := s.Chance(500)
	max := s.Range(1, 3)
	exp := simrt.PickS(s, 500*time.Millisecond, 100*time.Millisecond, 999*time.Millisecond)
	useSim := s.Chance(400)
	harness.StartCoarseClock(s, 0)
	cfg := limiter.Config{Max: max, Expiration: exp, KeyGenerator: func(c fiber.Ctx) string { return strings.Clone(c.Get("X-Key")) }}
	if sliding {
		cfg.LimiterMiddleware = limiter.SlidingWindow{}
	}
	if useSim {
		cfg.Storage = harness.NewSimStorage(s, "limiter-store")
	}
	cfgLine := fmt.Sprintf("sub-second expiration=%v sliding=%v max=%d sim=%v", exp, sliding, max, useSim)
	s.Logf("cfg %s", cfgLine)
	app := fiber.New()
	app.Use(limiter.New(cfg))
	ran := 0
	app.Get("/", func(c fiber.Ctx) error { ran++; return c.SendString("ok") })
	app.Handler()
	conn := harness.NewConn(app, "10.0.0.1")
	simrt.Sleep(time.Duration(s.Draw(3000)) * time.Millisecond)
	n := 2*max + 2
	first := 0
	for i := 0; i < n; i++ {
		resp := conn.Do(harness.Req{Path: "/", Headers: [][2]string{{"X-Key", "burst"}}}.Bytes())
		if i == 0 {
			first = resp.Status
		}
		s.Logf("burst request %d: status %d", i, resp.Status)
	}
	if first != 200 {
		s.Fail("C13.overreject", "Expiration=%v Max=%d: the first request of a key was answered %d although nothing had been counted yet", exp, max, first)
	}
	if ran > 2*max {
		s.Fail("C13.overadmit", "Expiration=%v Max=%d: %d of %d requests sent at one instant reached the handler; an instant belongs to at most two windows (at most %d)", exp, max, ran, n, 2*max)
	}
	s.Count("probe_sub_second_expiration")
	info.StateHash = newHasher().str(cfgLine).h
	info.Nontrivial = true
	info.Sample = map[string]any{"config": cfgLine}
}

func limiterMain(s *simrt.Sim, info *harness.RunInfo) {
	if s.Chance(50) {
		limiterSubSecond(s, info)
		return
	}
	harness.ChooseTransportNoPause(s, 150) // some runs go through fasthttp's real connection loop
	sliding := s.Chance(500)
	cfgMax := s.Range(1, 5)
	E := simrt.PickS(s, 2, 1, 3, 5)
	dynMax := s.Chance(300)
	nkeys := s.Range(1, 3)
	useNext := s.Chance(200)
	skipFailed := s.Chance(250)
	skipOK := !skipFailed && s.Chance(150)
	storageKind := s.Draw(4)
	// fault stratum: the storage fails now and then. The middleware's documented reaction is to start
	// over with an empty entry, so nothing about the counts is demanded of such runs - only that every
	// request is answered (no lock is left behind, nothing panics)
	faults := s.Chance(120)
	info.Faults = faults
	if faults {
		storageKind = 1
	}
	nclients := s.Range(2, harness.Scale(6, 9))
	preempt := simrt.PickS(s, 150, 0, 50, 400)
	clock := harness.StartCoarseClock(s, 0)

	cfg := limiter.Config{
		Max:                    cfgMax,
		Expiration:             time.Duration(E) * time.Second,
		SkipFailedRequests:     skipFailed,
		SkipSuccessfulRequests: skipOK,
		KeyGenerator: func(c fiber.Ctx) string {
			simrt.Yield(200)
			return strings.Clone(c.Get("X-Key")) // values from the context are only valid inside the handler
		},
	}
	if sliding {
		cfg.LimiterMiddleware = limiter.SlidingWindow{}
	}
	if dynMax {
		cfg.MaxFunc = func(c fiber.Ctx) int {
			simrt.Yield(201)
			return atoi(c.Get("X-Max"))
		}
	}
	if useNext {
		cfg.Next = func(c fiber.Ctx) bool { return c.Get("X-Skip") == "1" }
	}
	// external storages refuse the empty key (nothing is stored), so it is used with the built-in memory only
	emptyKey := storageKind == 0 && s.Chance(300)
	customReject := s.Chance(250)
	if customReject {
		// the application's own answer to a rejected request (still a 429; Retry-After comes from the middleware)
		rejectWithError := s.Chance(500)
		cfg.LimitReached = func(c fiber.Ctx) error {
			simrt.Yield(203)
			if rejectWithError {
				// left to the application's error handler
				return fiber.NewError(fiber.StatusTooManyRequests, "slow down")
			}
			return c.Status(fiber.StatusTooManyRequests).JSON(fiber.Map{"error": "slow down"})
		}
	}
	var sim *harness.SimStorage
	var keyGuard *harness.KeyGuard
	switch storageKind {
	case 1, 2:
		sim = harness.NewSimStorage(s, "limiter-store")
		sim.Alias = storageKind == 2
		sim.KeyOracle = "C13.storage-key-aliases-request-buffer"
		if faults {
			sim.FailGet = simrt.PickS(s, 100, 300, 0)
			sim.FailSet = simrt.PickS(s, 100, 0, 300)
		}
		cfg.Storage = sim
	case 3:
		keyGuard = harness.NewKeyGuard(s, simexport.NewMemoryStorage(), "C13.storage-key-aliases-request-buffer")
		cfg.Storage = keyGuard
	}
	sname := [...]string{"memory", "sim-copy", "sim-alias", "storage-memory"}[storageKind]
	cfgLine := fmt.Sprintf("sliding=%v max=%d E=%d dynMax=%v keys=%d next=%v skipFailed=%v skipOK=%v storage=%s clients=%d preempt=%d customReject=%v emptyKey=%v",
		sliding, cfgMax, E, dynMax, nkeys, useNext, skipFailed, skipOK, sname, nclients, preempt, customReject, emptyKey)
	s.Logf("cfg %s", cfgLine)

	var ops []*limOp
	app := fiber.New()
	// some applications recover from panicking handlers in front of everything: such a request was counted
	// when it came in and, having left the limiter by a panic, is not given back whatever the skip options say
	usePanic := s.Chance(200)
	if usePanic {
		app.Use(recoverer.New())
	}
	app.Use(limiter.New(cfg))
	app.Get("/", func(c fiber.Ctx) error {
		op := ops[atoi(c.Get("X-Op"))]
		op.hEntry = s.Stamp()
		s.Logf("op%d handler entry", op.id)
		simrt.Yield(202)
		if op.durMs > 0 {
			simrt.Sleep(time.Duration(op.durMs) * time.Millisecond)
		}
		op.hExit = s.Stamp()
		if op.panics {
			panic("handler panic in op" + strconv.Itoa(op.id))
		}
		if op.viaErr {
			// the failure is reported the other way: status set, error returned, the error handler writes the body
			c.Status(op.wantStatus)
			return fiber.NewError(op.wantStatus, "handler failed")
		}
		return c.SendStatus(op.wantStatus)
	})
	app.Handler() // startup work happens before the clients start

	// workload
	type plan struct {
		think []int
		ops   []*limOp
	}
	plans := make([]plan, nclients)
	thinks := []int{0, 200, 900, E * 1000, (2*E + 1) * 1000, 400}
	for ci := range plans {
		n := s.Range(1, harness.Scale(8, 12))
		for j := 0; j < n; j++ {
			op := &limOp{id: len(ops), client: ci, key: "k" + strconv.Itoa(s.Draw(nkeys)), max: cfgMax, wantStatus: 200}
			if emptyKey && op.key == "k0" {
				op.key = "" // a KeyGenerator that finds nothing to key on: all such clients share one bucket
			}
			if dynMax {
				op.max = s.Range(0, 4)
			}
			if useNext && s.Chance(150) {
				op.bypass = true
			}
			if op.max == 0 {
				op.bypass = true
			}
			if s.Chance(250) {
				op.wantStatus = simrt.PickS(s, 500, 404, 400)
				op.viaErr = s.Chance(400)
			}
			if usePanic && s.Chance(150) {
				op.panics, op.wantStatus = true, 500
			}
			op.durMs = simrt.PickS(s, 0, 0, 300, (E+1)*1000, 0)
			ops = append(ops, op)
			plans[ci].ops = append(plans[ci].ops, op)
			plans[ci].think = append(plans[ci].think, thinks[s.Draw(len(thinks))])
		}
	}
	s.SetPreempt(preempt)
	var wg sync.WaitGroup
	for ci := range plans {
		wg.Add(1)
		p := plans[ci]
		simrt.GoNamed("client"+strconv.Itoa(ci), func() {
			defer wg.Done()
			conn := harness.NewConn(app, "10.0.0."+strconv.Itoa(ci+1))
			for j, op := range p.ops {
				simrt.Sleep(time.Duration(p.think[j]) * time.Millisecond)
				req := harness.Req{Path: "/", Headers: [][2]string{
					{"X-Op", strconv.Itoa(op.id)}, {"X-Key", op.key}, {"X-Max", strconv.Itoa(op.max)},
				}}
				if op.bypass && op.max != 0 {
					req.Headers = append(req.Headers, [2]string{"X-Skip", "1"})
				}
				op.call = s.Stamp()
				s.Logf("op%d call key=%s max=%d bypass=%v want=%d dur=%d now=%d", op.id, op.key, op.max, op.bypass, op.wantStatus, op.durMs, harness.CoarseNow())
				resp := conn.Do(req.Bytes())
				op.ret = s.Stamp()
				op.status = resp.Status
				op.retryAfter = resp.Get("Retry-After")
				op.limit = resp.Get("X-Ratelimit-Limit")
				op.remaining = resp.Get("X-Ratelimit-Remaining")
				op.reset = resp.Get("X-Ratelimit-Reset")
				s.Logf("op%d ret status=%d retry=%q limit=%q remaining=%q reset=%q now=%d", op.id, op.status, op.retryAfter, op.limit, op.remaining, op.reset, harness.CoarseNow())
			}
		})
	}
	join(&wg)
	s.SetPreempt(0)
	if keyGuard != nil {
		keyGuard.Check("at the end of the run")
	}
	if s.Failed() {
		return
	}
	if faults {
		for _, op := range ops {
			if op.ret == 0 {
				s.Fail("C13.progress", "op%d was never answered after a storage fault", op.id)
			}
		}
		info.StateHash = newHasher().str(cfgLine).str("faults").h
		info.Sample = map[string]any{"config": cfgLine + " faults"}
		return
	}

	// ---- oracles ----
	skipApplies := func(op *limOp) bool {
		if op.panics {
			return false
		}
		return (skipOK && op.status < 400) || (skipFailed && op.status >= 400)
	}
	var hist []porcupine.Operation
	rejected, overlap := 0, false
	for _, op := range ops {
		ran := op.hEntry != 0
		if op.bypass {
			if !ran || op.status != op.wantStatus || op.limit != "" || op.retryAfter != "" {
				s.Fail("C13.bypass", "op%d (max=%d, Next=%v) must bypass the limiter: ran=%v status=%d limit=%q retry=%q", op.id, op.max, op.max != 0, ran, op.status, op.limit, op.retryAfter)
			}
			continue
		}
		in := limIn{id: op.id, key: op.key, max: op.max}
		var out limOut
		retStamp := op.ret
		if ran {
			retStamp = op.hEntry
			if op.status != op.wantStatus {
				s.Fail("C13.response", "op%d: handler answered %d but the client got %d", op.id, op.wantStatus, op.status)
				continue
			}
			if !op.panics && op.limit != strconv.Itoa(op.max) { // (the response of a panicking request is the recover middleware's)
				s.Fail("C13.limit-header", "op%d: X-RateLimit-Limit=%q, MaxFunc returned %d", op.id, op.limit, op.max)
			}
			out = limOut{admitted: true, reset: atoi(op.reset), remaining: atoi(op.remaining)}
			if skipApplies(op) {
				in.will = true
				out.remaining--
			}
		} else {
			rejected++
			if op.status != 429 || op.retryAfter == "" {
				s.Fail("C13.reject-shape", "op%d: handler not reached but status=%d Retry-After=%q", op.id, op.status, op.retryAfter)
				continue
			}
			out = limOut{admitted: false, reset: atoi(op.retryAfter)}
		}
		in.cands = clock.ValuesBetween(op.call, retStamp)
		hist = append(hist, porcupine.Operation{ClientId: op.client, Input: in, Call: int64(op.call), Output: out, Return: int64(retStamp)})
		if in.will {
			hist = append(hist, porcupine.Operation{ClientId: op.client, Input: limIn{unhit: true, id: op.id, key: op.key}, Call: int64(op.hExit), Output: limOut{}, Return: int64(op.ret)})
		}
	}
	for i, a := range ops {
		for _, b := range ops[i+1:] {
			if a.client != b.client && a.call < b.ret && b.call < a.ret {
				overlap = true
			}
		}
	}
	// partition by key
	byKey := map[string][]porcupine.Operation{}
	for _, o := range hist {
		k := o.Input.(limIn).key
		byKey[k] = append(byKey[k], o)
	}
	keys := make([]string, 0, len(byKey))
	for k := range byKey {
		keys = append(keys, k)
	}
	sort.Strings(keys)
	mc := limModelCfg{sliding: sliding, E: uint32(E), cfgMax: cfgMax}
	h := newHasher().str(fmt.Sprint(sliding, cfgMax, E, dynMax, skipFailed, skipOK, storageKind))
	for _, k := range keys {
		part := byKey[k]
		res := porcupine.CheckOperationsTimeout(limModel(mc), part, 30*time.Second)
		s.Count("porcupine_" + string(res))
		if res == porcupine.Illegal {
			// classify against named deviations so that each gets its own oracle id
			oracle := "C13.linearizable"
			v1 := mc
			v1.useCfgMax = true
			v2 := mc
			v2.unhitAny = true
			v3 := v1
			v3.unhitAny = true
			switch {
			case sliding && dynMax && porcupine.CheckOperationsTimeout(limModel(v1), part, 30*time.Second) == porcupine.Ok:
				oracle = "C13.sliding-ignores-maxfunc"
			case (skipFailed || skipOK) && porcupine.CheckOperationsTimeout(limModel(v2), part, 30*time.Second) == porcupine.Ok:
				oracle = "C13.skip-decrement-wrong-window"
			case (skipFailed || skipOK) && sliding && dynMax && porcupine.CheckOperationsTimeout(limModel(v3), part, 30*time.Second) == porcupine.Ok:
				oracle = "C13.sliding-ignores-maxfunc+skip-decrement-wrong-window"
			}
			s.Fail(oracle, "history of key %s is not linearizable w.r.t. the %s window model (Max=%d E=%ds storage=%s):\n%s", k, map[bool]string{false: "fixed", true: "sliding"}[sliding], cfgMax, E, sname, describeLimHist(part))
		}
		for _, o := range part {
			in := o.Input.(limIn)
			out := o.Output.(limOut)
			if !in.unhit {
				h.str(k).int(in.max).str(fmt.Sprint(out.admitted, out.reset))
			}
		}
	}
	if overlap {
		s.Count("probe_overlapping_requests")
	}
	if rejected > 0 {
		s.Count("probe_runs_with_rejection")
	}
	for _, op := range ops {
		if op.hEntry != 0 && !op.bypass {
			c := clock.ValuesBetween(op.hEntry, op.hExit)
			if len(c) > 0 && int(c[len(c)-1]-c[0]) >= E {
				s.Count("probe_window_rolled_during_handler")
				break
			}
		}
	}
	info.StateHash = h.h
	info.Nontrivial = rejected > 0 || overlap
	info.Sample = map[string]any{"config": cfgLine, "ops": len(ops), "rejected": rejected}
}

func describeLimHist(part []porcupine.Operation) string {
	sort.Slice(part, func(i, j int) bool { return part[i].Call < part[j].Call })
	var b strings.Builder
	for _, o := range part {
		in := o.Input.(limIn)
		out := o.Output.(limOut)
		if in.unhit {
			fmt.Fprintf(&b, "  [%d,%d] client%d op%d UNHIT\n", o.Call, o.Return, o.ClientId, in.id)
		} else {
			fmt.Fprintf(&b, "  [%d,%d] client%d op%d HIT max=%d clock∈%v -> admitted=%v reset=%d remaining=%d willUnhit=%v\n", o.Call, o.Return, o.ClientId, in.id, in.max, in.cands, out.admitted, out.reset, out.remaining, in.will)
		}
	}
	return b.String()
}
