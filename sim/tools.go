//go:build tools

package sim

import (
	_ "github.com/anishathalye/porcupine"
	_ "github.com/gofiber/fiber/v3"
	_ "golang.org/x/tools/go/packages"
	_ "golang.org/x/tools/go/ast/astutil"
)
