package main

import (
	"fmt"
	"golang.org/x/tools/go/packages"
	_ "golang.org/x/tools/go/ast/astutil"
)

func main() {
	cfg := &packages.Config{Mode: packages.NeedName | packages.NeedFiles | packages.NeedSyntax | packages.NeedTypes | packages.NeedTypesInfo | packages.NeedImports | packages.NeedDeps, Dir: "/verif/sim"}
	pkgs, err := packages.Load(cfg, "github.com/gofiber/fiber/v3/middleware/limiter")
	fmt.Println(len(pkgs), err)
	for _, p := range pkgs { fmt.Println(p.PkgPath, len(p.Syntax), p.Errors) }
}
