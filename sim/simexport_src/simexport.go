// Package simexport is added to the fiber module by the build overlay only
// (it does not exist in /repo): it hands internal packages to the harness.
package simexport

import (
	"time"

	"github.com/gofiber/fiber/v3"
	"github.com/gofiber/fiber/v3/internal/storage/memory"
)

// NewMemoryStorage returns the in-repo copy of the external memory storage.
func NewMemoryStorage() fiber.Storage { return memory.New() }

// NewMemoryStorageGC returns it with a custom GC interval.
func NewMemoryStorageGC(d time.Duration) fiber.Storage {
	return memory.New(memory.Config{GCInterval: d})
}
