package harness

import (
	"encoding/json"
	"fmt"
	"os"
	"regexp"
	"runtime"
	"runtime/debug"
	"sort"
	"strconv"
	"strings"
	"testing"
	"time"

	"verif.local/sim/simrt"
)

// Engine is one simulated system + workload + oracles.
type Engine struct {
	Name     string
	Property string
	Level    string // exploration | fault_enumeration
	// Main runs as task 0 inside the bubble: draws the configuration from the
	// tape, builds everything, runs the workload, evaluates the oracles.
	Main func(s *simrt.Sim, r *RunInfo)
	// Rule describes generation and what counts as distinct / non-trivial.
	Rule        string
	Components  map[string]string // real-vs-stub table
	Assumptions []string
	MaxSimTime  time.Duration
	MaxSteps    int
	DrainTime   time.Duration // extra simulated time at shutdown for un-instrumented background goroutines to end
}

// RunInfo is filled by the engine for evidence.
type RunInfo struct {
	StateHash  uint64 // abstract summary of what the run did (for distinctness)
	Nontrivial bool   // by the engine's stated rule
	Sample     any    // a small description of the case, kept for a few runs
	Faults     bool   // run belongs to the fault-injecting stratum
}

var Engines = map[string]*Engine{}

// Deep is set in the thorough tier: engines widen their bounds (more clients,
// longer histories). A replay file records the tier it was found in.
var Deep = os.Getenv("VERIF_TIER") == "thorough"

// Scale returns n in the quick tier and the larger bound in the thorough tier.
func Scale(n, deep int) int {
	if Deep {
		return deep
	}
	return n
}

func Register(e *Engine) { Engines[e.Name] = e }

// Known finding / fixed entry as stored in /verif/known_findings.json.
type Known struct {
	Property string `json:"property"`
	Status   string `json:"status"` // "known" | "fixed"
	Oracle   string `json:"oracle"`
	Match    string `json:"match"` // regexp on the failure detail ("" = any)
	What     string `json:"what"`
	Commit   string `json:"commit,omitempty"`
	re       *regexp.Regexp
}

type knownSet []*Known

func loadKnown(path string) knownSet {
	var ks knownSet
	if path == "" {
		return nil
	}
	b, err := os.ReadFile(path)
	if err != nil {
		return nil
	}
	var file struct {
		Findings []*Known `json:"findings"`
	}
	if err := json.Unmarshal(b, &file); err != nil {
		fmt.Fprintf(os.Stderr, "known findings: %v\n", err)
		os.Exit(2)
	}
	for _, k := range file.Findings {
		if k.Status != "known" {
			continue // fixed entries suppress nothing
		}
		if k.Match != "" {
			k.re = regexp.MustCompile(k.Match)
		}
		ks = append(ks, k)
	}
	return ks
}

func (ks knownSet) find(f simrt.Failure) *Known {
	for _, k := range ks {
		if k.Oracle == f.Oracle && (k.re == nil || k.re.MatchString(f.Detail)) {
			return k
		}
	}
	return nil
}

// Replay is the replay file.
type Replay struct {
	Engine   string   `json:"engine"`
	Property string   `json:"property"`
	Seed     uint64   `json:"seed"`
	Oracle   string   `json:"oracle"`
	Detail   string   `json:"detail"`
	Tape     []uint32 `json:"tape"`
	TapeLen0 int      `json:"tape_len_before_shrinking"`
	Shrunk   int      `json:"shrink_runs"`
	LogHash  string   `json:"log_hash"`
	Tier     string   `json:"tier"`
	Log      []string `json:"log"`
}

// Summary is what one worker process reports (one JSON document).
type Summary struct {
	Engine     string            `json:"engine"`
	Worker     int               `json:"worker"`
	Runs       int               `json:"runs"`
	FirstSeed  uint64            `json:"first_seed"`
	LastSeed   uint64            `json:"last_seed"`
	Steps      int               `json:"steps"`
	Switches   int               `json:"switches"`
	SimSeconds float64           `json:"sim_seconds"`
	WallS      float64           `json:"wall_s"`
	Counters   map[string]int    `json:"counters"`
	Schedules  []uint64          `json:"schedules"` // distinct schedule signatures (capped)
	States     []uint64          `json:"states"`    // distinct non-trivial abstract states (capped)
	NSched     int               `json:"n_schedules"`
	NStates    int               `json:"n_states"`
	Nontrivial int               `json:"nontrivial_runs"`
	FaultRuns  int               `json:"fault_runs"`
	Samples    []any             `json:"samples"`
	Leftover   int               `json:"leftover_goroutines"`
	Violations []Replay          `json:"violations"`
	ReplayPath []string          `json:"replay_paths"`
	KnownHits  map[string]int    `json:"known_hits"` // index in known list -> count
	KnownEx    map[string]string `json:"known_examples"`
	Trouble    []string          `json:"trouble"` // harness problems (exit 2)
	// failures that did not replay (e.g. a dangling view of recycled memory read differently); exit 2 unless a replayable violation was found as well
	Unreplayable []string          `json:"unreplayable"`
	LogHashes    map[string]string `json:"log_hashes,omitempty"` // seed -> hash (determinism self-test)
}

func envInt(name string, def int) int {
	if v := os.Getenv(name); v != "" {
		n, err := strconv.Atoi(v)
		if err == nil {
			return n
		}
	}
	return def
}

func (e *Engine) simConfig(keep bool) simrt.Config {
	return simrt.Config{MaxSimTime: e.MaxSimTime, MaxSteps: e.MaxSteps, KeepLog: keep, DrainTime: e.DrainTime}
}

func (e *Engine) runOnce(t *testing.T, tape *simrt.Tape, keep bool) (*simrt.Sim, *RunInfo) {
	runtime.GC()
	runtime.GC()
	info := &RunInfo{}
	SetTransport(NetOptions{})
	resetNetConns()
	s := simrt.Run(t, tape, e.simConfig(keep), func(s *simrt.Sim) {
		defer CloseNetConns() // also when Main panics: the peers go away
		e.Main(s, info)
	})
	return s, info
}

// hasOracle looks for a failure of the given oracle that is not a listed known
// finding (so that shrinking cannot turn a new violation into a known one).
func hasOracle(s *simrt.Sim, oracle string) (simrt.Failure, bool) {
	for _, f := range s.Failures {
		if f.Oracle == oracle && activeKnown.find(f) == nil {
			return f, true
		}
	}
	return simrt.Failure{}, false
}

var activeKnown knownSet

// shrink minimises a failing tape while the same oracle keeps failing.
func (e *Engine) shrink(t *testing.T, vals []uint32, oracle string, budget time.Duration) ([]uint32, int) {
	deadline := time.Now().Add(budget)
	runs := 0
	test := func(v []uint32) bool {
		if time.Now().After(deadline) {
			return false
		}
		runs++
		s, _ := e.runOnce(t, simrt.ReplayTape(v), false)
		_, ok := hasOracle(s, oracle)
		return ok
	}
	cur := append([]uint32(nil), vals...)
	// 1. shortest failing prefix (missing values read as 0)
	lo, hi := 0, len(cur)
	for lo < hi {
		mid := (lo + hi) / 2
		if test(cur[:mid]) {
			hi = mid
		} else {
			lo = mid + 1
		}
	}
	if hi < len(cur) && test(cur[:hi]) {
		cur = cur[:hi]
	}
	improved := true
	for pass := 0; improved && pass < 6 && time.Now().Before(deadline); pass++ {
		improved = false
		// 2. zero chunks
		for k := len(cur) / 2; k >= 1; k /= 2 {
			for i := 0; i+k <= len(cur); i += k {
				allZero := true
				for _, v := range cur[i : i+k] {
					if v != 0 {
						allZero = false
						break
					}
				}
				if allZero {
					continue
				}
				cand := append([]uint32(nil), cur...)
				for j := i; j < i+k; j++ {
					cand[j] = 0
				}
				if test(cand) {
					cur = cand
					improved = true
				}
			}
		}
		// 3. delete chunks
		for k := 8; k >= 1; k /= 2 {
			for i := 0; i+k <= len(cur); {
				cand := append(append([]uint32(nil), cur[:i]...), cur[i+k:]...)
				if test(cand) {
					cur = cand
					improved = true
				} else {
					i += k
				}
			}
		}
		// 4. lower single values
		for i := range cur {
			for cur[i] > 0 {
				cand := append([]uint32(nil), cur...)
				cand[i] = cur[i] / 2
				if test(cand) {
					cur = cand
					improved = true
				} else {
					cand[i] = cur[i] - 1
					if cur[i] > 1 && test(cand) {
						cur = cand
						improved = true
					} else {
						break
					}
				}
			}
		}
		// trailing zeros are implied
		for len(cur) > 0 && cur[len(cur)-1] == 0 {
			cur = cur[:len(cur)-1]
		}
	}
	return cur, runs
}

// WorkerMain is the body of the test binary's only test.
func WorkerMain(t *testing.T) {
	PrepareProcess()
	debug.SetGCPercent(-1)
	debug.SetMemoryLimit(3 << 30)
	name := os.Getenv("VERIF_ENGINE")
	e := Engines[name]
	if e == nil {
		fmt.Fprintf(os.Stderr, "unknown engine %q\n", name)
		os.Exit(2)
	}
	out := os.Getenv("VERIF_OUT")
	sum := &Summary{Engine: name, Worker: envInt("VERIF_WORKER", 0), Counters: map[string]int{}, KnownHits: map[string]int{}, KnownEx: map[string]string{}}
	defer func() {
		b, _ := json.Marshal(sum)
		if out != "" {
			if err := os.WriteFile(out, b, 0o644); err != nil {
				fmt.Fprintln(os.Stderr, err)
				os.Exit(2)
			}
		} else {
			fmt.Println(string(b))
		}
	}()

	if rp := os.Getenv("VERIF_REPLAY"); rp != "" {
		replayFile(t, e, rp, sum)
		return
	}

	if ts := os.Getenv("VERIF_TRACE_SEED"); ts != "" {
		// debugging aid: print the event log of one run
		seed, _ := strconv.ParseUint(ts, 10, 64)
		s, _ := e.runOnce(t, simrt.NewTape(seed), true)
		for _, l := range s.Log {
			fmt.Fprintln(os.Stderr, l)
		}
		fmt.Fprintf(os.Stderr, "steps=%d failures=%d counters=%v\n", s.Steps(), s.NumFailures(), s.Counters)
		return
	}
	known := loadKnown(os.Getenv("VERIF_KNOWN"))
	activeKnown = known
	base := uint64(envInt("VERIF_SEED", 1))
	nworkers := envInt("VERIF_NWORKERS", 1)
	maxRuns := envInt("VERIF_RUNS", 1000)
	budget := time.Duration(envInt("VERIF_BUDGET_S", 3600)) * time.Second
	replayDir := os.Getenv("VERIF_REPLAY_DIR")
	hashes := os.Getenv("VERIF_HASHES") != ""
	if hashes {
		sum.LogHashes = map[string]string{}
	}
	start := time.Now()
	scheds := map[uint64]struct{}{}
	states := map[uint64]struct{}{}
	seenOracle := map[string]bool{}
	for i := 0; i < maxRuns; i++ {
		if time.Since(start) > budget {
			break
		}
		seed := base*1_000_000 + uint64(i*nworkers+sum.Worker)
		if i == 0 {
			sum.FirstSeed = seed
		}
		sum.LastSeed = seed
		tape := simrt.NewTape(seed)
		s, info := e.runOnce(t, tape, false)
		sum.Runs++
		sum.Steps += s.Steps()
		sum.Switches += s.Switches()
		sum.SimSeconds += s.SimTime().Seconds()
		sum.Leftover += s.Leftover
		for k, v := range s.Counters {
			sum.Counters[k] += v
		}
		scheds[s.SchedSig()] = struct{}{}
		if info.Nontrivial {
			sum.Nontrivial++
			states[info.StateHash] = struct{}{}
		}
		if info.Faults {
			sum.FaultRuns++
		}
		if info.Sample != nil && len(sum.Samples) < 3 {
			sum.Samples = append(sum.Samples, map[string]any{"seed": seed, "case": info.Sample})
		}
		if hashes {
			sum.LogHashes[strconv.FormatUint(seed, 10)] = fmt.Sprintf("%016x", s.LogHash())
		}
		if s.NumFailures() == 0 {
			continue
		}
		for _, f := range s.Failures {
			if k := known.find(f); k != nil {
				key := k.Oracle + " " + k.Match
				sum.KnownHits[key]++
				if _, ok := sum.KnownEx[key]; !ok {
					sum.KnownEx[key] = fmt.Sprintf("seed=%d %s", seed, firstLine(f.Detail))
				}
				continue
			}
			if seenOracle[f.Oracle] || len(sum.Violations) >= 4 {
				continue
			}
			rep := e.makeReplay(t, seed, tape.Rec, f, sum)
			if rep == nil && len(sum.Unreplayable) > 12 {
				seenOracle[f.Oracle] = true // enough attempts for this one
			}
			if rep != nil {
				seenOracle[f.Oracle] = true
				path := fmt.Sprintf("%s/%s-%s-%d.json", replayDir, e.Property, sanitize(f.Oracle), seed)
				if replayDir != "" {
					b, _ := json.MarshalIndent(rep, "", " ")
					if err := os.WriteFile(path, b, 0o644); err != nil {
						sum.Trouble = append(sum.Trouble, err.Error())
					}
				}
				sum.Violations = append(sum.Violations, *rep)
				sum.ReplayPath = append(sum.ReplayPath, path)
			}
		}
		if len(sum.Violations) > 0 && os.Getenv("VERIF_KEEP_GOING") == "" {
			break
		}
	}
	sum.WallS = time.Since(start).Seconds()
	sum.NSched = len(scheds)
	sum.NStates = len(states)
	sum.Schedules = capKeys(scheds, 20000)
	sum.States = capKeys(states, 20000)
}

func firstLine(s string) string {
	if i := strings.IndexByte(s, '\n'); i >= 0 {
		s = s[:i]
	}
	if len(s) > 300 {
		s = s[:300]
	}
	return s
}

func sanitize(s string) string {
	return strings.Map(func(r rune) rune {
		if r >= 'a' && r <= 'z' || r >= 'A' && r <= 'Z' || r >= '0' && r <= '9' || r == '.' || r == '-' {
			return r
		}
		return '_'
	}, s)
}

func capKeys(m map[uint64]struct{}, n int) []uint64 {
	out := make([]uint64, 0, len(m))
	for k := range m {
		out = append(out, k)
	}
	sort.Slice(out, func(i, j int) bool { return out[i] < out[j] })
	if len(out) > n {
		out = out[:n]
	}
	return out
}

// makeReplay shrinks, re-runs twice with the log kept and checks that the
// minimised tape reproduces the same oracle deterministically.
func (e *Engine) makeReplay(t *testing.T, seed uint64, rec []uint32, f simrt.Failure, sum *Summary) *Replay {
	budget := time.Duration(envInt("VERIF_SHRINK_S", 40)) * time.Second
	min, runs := e.shrink(t, rec, f.Oracle, budget)
	a, _ := e.runOnce(t, simrt.ReplayTape(min), true)
	b, _ := e.runOnce(t, simrt.ReplayTape(min), true)
	fa, ok := hasOracle(a, f.Oracle)
	if !ok {
		// shrinking went wrong (budget) -> fall back to the original tape
		min = rec
		a, _ = e.runOnce(t, simrt.ReplayTape(min), true)
		b, _ = e.runOnce(t, simrt.ReplayTape(min), true)
		fa, ok = hasOracle(a, f.Oracle)
	}
	if !ok || a.LogHash() != b.LogHash() {
		if d := os.Getenv("VERIF_DEBUG_DIR"); d != "" {
			_ = os.WriteFile(d+"/nondet-a.log", []byte(strings.Join(a.Log, "\n")), 0o644)
			_ = os.WriteFile(d+"/nondet-b.log", []byte(strings.Join(b.Log, "\n")), 0o644)
		}
		// not reported (a violation that does not replay is never printed); the search goes on, and only if
		// nothing replayable turns up does the check end as "trouble"
		sum.Unreplayable = append(sum.Unreplayable, fmt.Sprintf("seed %d: failure %s does not replay deterministically (hashes %x %x, reproduced=%v)", seed, f.Oracle, a.LogHash(), b.LogHash(), ok))
		return nil
	}
	return &Replay{
		Engine: e.Name, Property: e.Property, Seed: seed, Oracle: f.Oracle, Detail: fa.Detail,
		Tape: min, TapeLen0: len(rec), Shrunk: runs, LogHash: fmt.Sprintf("%016x", a.LogHash()), Log: a.Log, Tier: os.Getenv("VERIF_TIER"),
	}
}

func replayFile(t *testing.T, e *Engine, path string, sum *Summary) {
	b, err := os.ReadFile(path)
	if err != nil {
		sum.Trouble = append(sum.Trouble, err.Error())
		return
	}
	var rep Replay
	if err := json.Unmarshal(b, &rep); err != nil {
		sum.Trouble = append(sum.Trouble, err.Error())
		return
	}
	s, _ := e.runOnce(t, simrt.ReplayTape(rep.Tape), true)
	sum.Runs = 1
	for _, l := range s.Log {
		fmt.Fprintln(os.Stderr, l)
	}
	f, ok := hasOracle(s, rep.Oracle)
	got := fmt.Sprintf("%016x", s.LogHash())
	if ok {
		sum.Violations = append(sum.Violations, Replay{Engine: e.Name, Property: e.Property, Seed: rep.Seed, Oracle: f.Oracle, Detail: f.Detail, LogHash: got})
		sum.ReplayPath = append(sum.ReplayPath, path)
		if got != rep.LogHash {
			sum.Trouble = append(sum.Trouble, fmt.Sprintf("replay reproduced %s but the event log differs (%s, recorded %s): the code changed or the harness is not deterministic", rep.Oracle, got, rep.LogHash))
		}
	} else {
		fmt.Fprintf(os.Stderr, "replay: oracle %s did not fail; failures: %v\n", rep.Oracle, s.Failures)
	}
}
