package harness

import (
	"net/http"
	"sort"
	"strings"
	"time"
)

// Browser is a small standards-conforming client-side cookie store (RFC 6265
// subset: name/value, Max-Age, Expires, Path with default-path and
// path-match; one host). Responses are parsed with net/http — an
// independent, strict parser — not with fasthttp.
type Browser struct {
	Name string
	// Cookies is keyed by name + "\x00" + path; use Get/Set/Header.
	Cookies map[string]*BCookie
}

type BCookie struct {
	Name, Value, Path string
	Expires           time.Time // zero = session cookie
	Raw               string    // the Set-Cookie line as received
}

func NewBrowser(name string) *Browser { return &Browser{Name: name, Cookies: map[string]*BCookie{}} }

// defaultPath per RFC 6265 5.1.4.
func defaultPath(reqPath string) string {
	if i := strings.IndexAny(reqPath, "?#"); i >= 0 {
		reqPath = reqPath[:i]
	}
	if reqPath == "" || reqPath[0] != '/' {
		return "/"
	}
	i := strings.LastIndexByte(reqPath, '/')
	if i == 0 {
		return "/"
	}
	return reqPath[:i]
}

// pathMatch per RFC 6265 5.1.4.
func pathMatch(reqPath, cookiePath string) bool {
	if i := strings.IndexAny(reqPath, "?#"); i >= 0 {
		reqPath = reqPath[:i]
	}
	if reqPath == "" {
		reqPath = "/"
	}
	if reqPath == cookiePath {
		return true
	}
	if strings.HasPrefix(reqPath, cookiePath) {
		return strings.HasSuffix(cookiePath, "/") || reqPath[len(cookiePath)] == '/'
	}
	return false
}

// Apply stores / expires cookies from a response to a request for "/".
func (b *Browser) Apply(resp *Resp, method string) (*http.Response, error) {
	return b.ApplyAt(resp, method, "/")
}

// ApplyAt stores / expires the cookies of a response (raw wire bytes) to a
// request for reqPath: a cookie without Path attribute is scoped to the
// default-path of the request, and an expiring Set-Cookie only removes the
// cookie of the same name AND path. It returns the parsed response, or an
// error if a strict client cannot parse what the server wrote.
func (b *Browser) ApplyAt(resp *Resp, method, reqPath string) (*http.Response, error) {
	hr, err := resp.ParseStrict(method)
	if err != nil {
		return nil, err
	}
	now := time.Now()
	for _, c := range hr.Cookies() {
		path := c.Path
		if path == "" || path[0] != '/' {
			path = defaultPath(reqPath)
		}
		key := c.Name + "\x00" + path
		bc := &BCookie{Name: c.Name, Value: c.Value, Path: path, Raw: c.Raw}
		switch {
		case c.MaxAge < 0:
			delete(b.Cookies, key)
			continue
		case c.MaxAge > 0:
			bc.Expires = now.Add(time.Duration(c.MaxAge) * time.Second)
		case !c.Expires.IsZero():
			if !c.Expires.After(now) {
				delete(b.Cookies, key)
				continue
			}
			bc.Expires = c.Expires
		}
		b.Cookies[key] = bc
	}
	return hr, nil
}

func (b *Browser) live() []*BCookie {
	now := time.Now()
	var out []*BCookie
	for k, c := range b.Cookies {
		if !c.Expires.IsZero() && !c.Expires.After(now) {
			delete(b.Cookies, k)
			continue
		}
		out = append(out, c)
	}
	// longer paths first, then by name (RFC 6265 5.4)
	sort.Slice(out, func(i, j int) bool {
		if len(out[i].Path) != len(out[j].Path) {
			return len(out[i].Path) > len(out[j].Path)
		}
		if out[i].Name != out[j].Name {
			return out[i].Name < out[j].Name
		}
		return out[i].Path < out[j].Path
	})
	return out
}

// Header returns the Cookie header for a request to "/x" style top-level paths
// (every stored cookie whose path matches "/").
func (b *Browser) Header() string { return b.HeaderFor("/") }

// HeaderFor returns the Cookie request header value for reqPath ("" if none).
// For compatibility with top-level test routes a request path directly below
// the root ("/show") matches cookies of path "/".
func (b *Browser) HeaderFor(reqPath string) string {
	var parts []string
	for _, c := range b.live() {
		if pathMatch(reqPath, c.Path) {
			parts = append(parts, c.Name+"="+c.Value)
		}
	}
	return strings.Join(parts, "; ")
}

// Get returns the stored value of a cookie (the one with the longest path).
func (b *Browser) Get(name string) (string, bool) {
	for _, c := range b.live() {
		if c.Name == name {
			return c.Value, true
		}
	}
	return "", false
}

// Set overwrites the stored value of a cookie (used to inject corruption);
// an unknown cookie is created for path "/".
func (b *Browser) Set(name, value string) {
	for _, c := range b.live() {
		if c.Name == name {
			c.Value = value
			return
		}
	}
	b.Cookies[name+"\x00/"] = &BCookie{Name: name, Value: value, Path: "/"}
}

// Del removes every stored cookie of that name.
func (b *Browser) Del(name string) {
	for k, c := range b.Cookies {
		if c.Name == name {
			delete(b.Cookies, k)
		}
	}
}
