package harness

import (
	"net/http"
	"sort"
	"strings"
	"time"
)

// Browser is a small standards-conforming client-side cookie store (RFC 6265
// subset: name/value, Max-Age, Expires, Path; one host). Responses are parsed
// with net/http — an independent, strict parser — not with fasthttp.
type Browser struct {
	Name    string
	Cookies map[string]*BCookie
}

type BCookie struct {
	Name, Value, Path string
	Expires           time.Time // zero = session cookie
	Raw               string    // the Set-Cookie line as received
}

func NewBrowser(name string) *Browser { return &Browser{Name: name, Cookies: map[string]*BCookie{}} }

// Apply stores / expires cookies from the Set-Cookie lines of a response
// (raw wire bytes). It returns the parsed response, or an error if a strict
// client cannot parse what the server wrote.
func (b *Browser) Apply(resp *Resp, method string) (*http.Response, error) {
	hr, err := resp.ParseStrict(method)
	if err != nil {
		return nil, err
	}
	now := time.Now()
	for _, c := range hr.Cookies() {
		bc := &BCookie{Name: c.Name, Value: c.Value, Path: c.Path, Raw: c.Raw}
		switch {
		case c.MaxAge < 0:
			delete(b.Cookies, c.Name)
			continue
		case c.MaxAge > 0:
			bc.Expires = now.Add(time.Duration(c.MaxAge) * time.Second)
		case !c.Expires.IsZero():
			if !c.Expires.After(now) {
				delete(b.Cookies, c.Name)
				continue
			}
			bc.Expires = c.Expires
		}
		b.Cookies[c.Name] = bc
	}
	return hr, nil
}

// Header returns the Cookie request header value ("" if none), dropping
// expired cookies first.
func (b *Browser) Header() string {
	now := time.Now()
	var names []string
	for n, c := range b.Cookies {
		if !c.Expires.IsZero() && !c.Expires.After(now) {
			delete(b.Cookies, n)
			continue
		}
		names = append(names, n)
	}
	sort.Strings(names)
	var parts []string
	for _, n := range names {
		parts = append(parts, n+"="+b.Cookies[n].Value)
	}
	return strings.Join(parts, "; ")
}

// Get returns the stored value of a cookie.
func (b *Browser) Get(name string) (string, bool) {
	c, ok := b.Cookies[name]
	if !ok {
		return "", false
	}
	if !c.Expires.IsZero() && !c.Expires.After(time.Now()) {
		delete(b.Cookies, name)
		return "", false
	}
	return c.Value, true
}

// Set overwrites a stored cookie value (used to inject corruption).
func (b *Browser) Set(name, value string) {
	if c, ok := b.Cookies[name]; ok {
		c.Value = value
	} else {
		b.Cookies[name] = &BCookie{Name: name, Value: value, Path: "/"}
	}
}
