// Package harness holds the simulated environment around the real fiber
// code: coarse clock daemon, storages, lockers, connections, browsers,
// transports, plus the worker loop (search, shrink, replay, evidence).
package harness

import (
	"sync"
	"sync/atomic"
	"time"
	_ "unsafe" // linkname

	"github.com/gofiber/utils/v2"
	"github.com/valyala/fasthttp"

	"verif.local/sim/simrt"
)

// The coarse clock of gofiber/utils is a package variable kept fresh by a
// real goroutine. The simulator owns the variable and runs its own updater
// as a simulated daemon (stub of the 15-line updater, same 1 s ticker).
//
//go:linkname utilsTimestamp github.com/gofiber/utils/v2.timestamp
var utilsTimestamp uint32

var envOnce sync.Once

// PrepareProcess must run once, outside any bubble: it consumes the sync.Once
// guards whose goroutines would otherwise be born inside the first bubble.
func PrepareProcess() {
	envOnce.Do(func() {
		utils.StartTimeStampUpdater()
		utils.StopTimeStampUpdater()
		time.Sleep(5 * time.Millisecond)
		// fasthttp's Date header updater
		var r fasthttp.Response
		_ = r.Header.Header()
	})
}

// ClockLog records every value the coarse clock took, with the global event
// sequence at which it changed, so that oracles can ask "which clock values
// existed during this operation".
type ClockLog struct {
	Seq []uint64
	Val []uint32
}

// ValuesBetween returns the clock values that were current at some point in
// [from,to] (event sequence numbers).
func (c *ClockLog) ValuesBetween(from, to uint64) []uint32 {
	var out []uint32
	for i := range c.Seq {
		endsAt := ^uint64(0)
		if i+1 < len(c.Seq) {
			endsAt = c.Seq[i+1]
		}
		if c.Seq[i] <= to && endsAt >= from {
			out = append(out, c.Val[i])
		}
	}
	return out
}

// StartCoarseClock sets utils.Timestamp() to the simulated now and starts the
// updater daemon. lagTicks: the daemon may skip a tick (as a loaded machine
// would) with the given per-tick probability in permille.
func StartCoarseClock(s *simrt.Sim, lagPermille int) *ClockLog {
	cl := &ClockLog{}
	set := func(t time.Time) {
		v := uint32(t.Unix())
		atomic.StoreUint32(&coarseNow, v)
		// utils.Timestamp() follows only if the code under test has asked for the updater (the real one is
		// started by utils.StartTimeStampUpdater and by nothing else); until then it reads 0 as it would
		if s.TimestampUpdaterStarted() {
			atomic.StoreUint32(&utilsTimestamp, v)
		}
		cl.Seq = append(cl.Seq, s.Stamp())
		cl.Val = append(cl.Val, v)
	}
	coarseOwner.Store(s)
	atomic.StoreUint32(&utilsTimestamp, 0)
	set(time.Now())
	simrt.GoNamed("coarse-clock", func() {
		ticker := time.NewTicker(time.Second)
		defer ticker.Stop()
		for t := range ticker.C {
			simrt.Resume(4)
			if lagPermille > 0 && s.Chance(lagPermille) {
				s.Count("fault_clock_lag")
				continue
			}
			set(t)
		}
	})
	return cl
}

// Now returns the coarse clock (the harness's own: what a storage server's clock shows, whether or not the
// code under test keeps utils.Timestamp() running).
func CoarseNow() uint32 { return atomic.LoadUint32(&coarseNow) }

var (
	coarseNow   uint32
	coarseOwner atomic.Pointer[simrt.Sim]
)

func init() {
	simrt.TimestampHook = func(s *simrt.Sim) {
		if coarseOwner.Load() == s {
			atomic.StoreUint32(&utilsTimestamp, atomic.LoadUint32(&coarseNow))
		}
	}
}
