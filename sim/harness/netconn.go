package harness

import (
	"bufio"
	"bytes"
	"fmt"
	"hash/fnv"
	"io"
	"net"
	"os"
	"strconv"
	"strings"
	"sync"
	"time"

	"github.com/valyala/bytebufferpool"
	"verif.local/sim/simrt"
)

// The second transport of Conn: fasthttp's real connection loop
// (Server.ServeConn: keep-alive, pipelining, request streaming, idle/read
// deadlines, error responses, context/reader/writer reuse) runs as a simulated
// task over an in-memory connection owned by the simulator. What the tape
// decides: how the request bytes are cut into segments, how many bytes one
// Read returns, pauses between segments, and when the peer gives up
// (half-close after a timeout, then full close).
//
// Blocking happens on channels only (durably blocking for synctest), every
// wake-up is followed by simrt.Resume, so a woken goroutine parks again before
// it touches anything shared.

// NetOptions is the per-run choice of transport, set by the engine from the tape.
type NetOptions struct {
	Enabled  bool
	Segments int           // 0 whole request, 1 a few random cuts, 2 one byte at a time for the head
	MaxRead  int           // bytes one server-side Read returns at most (0 = unlimited)
	Pause    time.Duration // simulated pause between segments
	Seed     uint64        // decides where a given request is cut
	Patience time.Duration // how long the peer waits for a response before it half-closes, and again before it closes
}

var netOpt NetOptions

func init() {
	// byte buffers returned to a (simulated) pool: everything up to the capacity is overwritten
	simrt.PoisonHook = func(v any) bool {
		switch b := v.(type) {
		case *bytebufferpool.ByteBuffer:
			poison(b.B[:cap(b.B)])
			return true
		case *[]byte:
			poison((*b)[:cap(*b)])
			return true
		}
		return false
	}
}

func poison(b []byte) {
	for i := range b {
		b[i] = 0xDB
	}
}

// SetTransport selects the transport for connections created afterwards.
func SetTransport(o NetOptions) { netOpt = o }

// ChooseTransport draws the transport for this run: most runs use the direct
// handler call, some the real connection loop with varying segmentation.
func ChooseTransport(s *simrt.Sim, permille int) NetOptions {
	o := NetOptions{}
	if s.Chance(permille) {
		o.Enabled = true
		o.Segments = s.Draw(3)
		o.MaxRead = simrt.PickS(s, 0, 1, 7, 64, 4096)
		o.Pause = simrt.PickS(s, 0, 0, time.Millisecond, 700*time.Millisecond)
		o.Patience = 20 * time.Second
		o.Seed = uint64(s.Draw(1<<16))<<1 | 1
	}
	SetTransport(o)
	resetNetConns()
	return o
}

// ChooseTransportNoPause is ChooseTransport for engines whose reference model is exact in time:
// the request bytes still arrive in segments, but no simulated time passes between them.
func ChooseTransportNoPause(s *simrt.Sim, permille int) NetOptions {
	o := ChooseTransport(s, permille)
	if o.Enabled {
		o.Pause = 0
		SetTransport(o)
		s.Count("probe_real_connection_loop")
	}
	return o
}

type half struct {
	mu     sync.Mutex
	chunks [][]byte
	eof    bool
	sig    chan struct{}
}

func newHalf() *half { return &half{sig: make(chan struct{}, 1)} }

func (h *half) put(p []byte) {
	h.mu.Lock()
	h.chunks = append(h.chunks, append([]byte(nil), p...))
	h.mu.Unlock()
	h.wake()
}

func (h *half) closeWrite() {
	h.mu.Lock()
	h.eof = true
	h.mu.Unlock()
	h.wake()
}

func (h *half) wake() {
	select {
	case h.sig <- struct{}{}:
	default:
	}
}

// take copies available bytes; ok=false means nothing there yet.
func (h *half) take(p []byte, max int) (n int, eof, ok bool) {
	h.mu.Lock()
	defer h.mu.Unlock()
	if len(h.chunks) == 0 {
		return 0, h.eof, h.eof
	}
	c := h.chunks[0]
	lim := len(p)
	if max > 0 && max < lim {
		lim = max
	}
	n = copy(p[:lim], c)
	if n == len(c) {
		h.chunks = h.chunks[1:]
	} else {
		h.chunks[0] = c[n:]
	}
	return n, false, true
}

func (h *half) pending() int {
	h.mu.Lock()
	defer h.mu.Unlock()
	n := 0
	for _, c := range h.chunks {
		n += len(c)
	}
	return n
}

type timeoutError struct{}

func (timeoutError) Error() string   { return "i/o timeout" }
func (timeoutError) Timeout() bool   { return true }
func (timeoutError) Temporary() bool { return true }

// srvConn is the server's end.
type srvConn struct {
	in, out       *half
	local, remote net.Addr
	maxRead       int
	rdl           time.Time
	closed        bool
	reads, writes int
}

func (c *srvConn) Read(p []byte) (int, error) {
	for {
		if c.closed {
			return 0, net.ErrClosed
		}
		n, eof, ok := c.in.take(p, c.maxRead)
		if ok {
			if eof {
				return 0, io.EOF
			}
			c.reads++
			return n, nil
		}
		if !c.rdl.IsZero() {
			d := time.Until(c.rdl)
			if d <= 0 {
				return 0, os.ErrDeadlineExceeded
			}
			t := time.NewTimer(d)
			select {
			case <-c.in.sig:
				t.Stop()
			case <-t.C:
			}
			simrt.Resume(9101)
			if !time.Now().Before(c.rdl) {
				if _, _, ok := c.in.take(nil, 0); !ok {
					return 0, os.ErrDeadlineExceeded
				}
			}
			continue
		}
		<-c.in.sig
		simrt.Resume(9102)
	}
}

func (c *srvConn) Write(p []byte) (int, error) {
	if c.closed {
		return 0, net.ErrClosed
	}
	c.writes++
	c.out.put(p)
	simrt.Yield(9103)
	return len(p), nil
}

func (c *srvConn) Close() error {
	if !c.closed {
		c.closed = true
		c.out.closeWrite()
	}
	return nil
}
func (c *srvConn) LocalAddr() net.Addr                { return c.local }
func (c *srvConn) RemoteAddr() net.Addr               { return c.remote }
func (c *srvConn) SetDeadline(t time.Time) error      { c.rdl = t; return nil }
func (c *srvConn) SetReadDeadline(t time.Time) error  { c.rdl = t; return nil }
func (c *srvConn) SetWriteDeadline(t time.Time) error { return nil } // writes never block

// netState is one open connection seen from the peer.
type netState struct {
	sc       *srvConn
	br       *bufio.Reader
	tee      bytes.Buffer
	done     bool // ServeConn returned
	panicked any
	patience time.Duration
	phase    int // 0 open, 1 half-closed by the peer, 2 closed
}

var (
	netConnsMu sync.Mutex
	netConns   []*netState
)

func resetNetConns() {
	netConnsMu.Lock()
	netConns = nil
	netConnsMu.Unlock()
}

// CloseNetConns ends every open simulated connection (the peers go away), so
// that the connection tasks finish before the run is torn down.
func CloseNetConns() {
	netConnsMu.Lock()
	l := netConns
	netConns = nil
	netConnsMu.Unlock()
	for _, ns := range l {
		ns.phase = 2
		ns.sc.in.closeWrite()
	}
}

// peerReader is the peer's view of the server->peer direction.
type peerReader struct{ ns *netState }

func (r peerReader) Read(p []byte) (int, error) {
	ns := r.ns
	for {
		n, eof, ok := ns.sc.out.take(p, 0)
		if ok {
			if eof {
				return 0, io.EOF
			}
			ns.tee.Write(p[:n])
			return n, nil
		}
		if ns.phase >= 2 {
			return 0, io.ErrUnexpectedEOF
		}
		t := time.NewTimer(ns.patience)
		fired := false
		select {
		case <-ns.sc.out.sig:
			t.Stop()
		case <-t.C:
			fired = true
		}
		simrt.Resume(9104)
		if fired {
			if s := simrt.Current(); s != nil {
				s.Count("fault_peer_gave_up_waiting")
				s.Logf("net: no response after %v, the peer %s", ns.patience, [...]string{"half-closes", "closes"}[min(ns.phase, 1)])
			}
			ns.phase++
			ns.sc.in.closeWrite() // half-close: the server sees EOF
		}
	}
}

func (c *Conn) netOpen() {
	o := c.net
	sc := &srvConn{in: newHalf(), out: newHalf(), maxRead: o.MaxRead,
		local:  &net.TCPAddr{IP: net.ParseIP("10.9.9.9"), Port: 80},
		remote: c.remote}
	ns := &netState{sc: sc, patience: o.Patience}
	ns.br = bufio.NewReaderSize(peerReader{ns}, 4096)
	c.ns = ns
	netConnsMu.Lock()
	netConns = append(netConns, ns)
	netConnsMu.Unlock()
	srv := c.App.Server()
	simrt.GoNamed("serveconn", func() {
		defer func() {
			if r := recover(); r != nil {
				ns.panicked = r
			}
			ns.done = true
			sc.Close()
		}()
		_ = srv.ServeConn(sc)
	})
	c.Opened++
}

// Close ends the connection from the peer's side (the next Do opens a new one).
func (c *Conn) Close() {
	if c.net.Enabled && c.ns != nil {
		c.ns.phase = 2
		c.ns.sc.in.closeWrite()
		c.ns = nil
		simrt.Yield(9105)
	}
}

// segments cuts the request bytes. The cuts are a function of the run's transport seed
// and the bytes themselves, not of the moment: the same request is delivered the same way
// whenever it is sent in a run (an engine that compares two deliveries of one request
// must not see a difference that it introduced itself).
func (c *Conn) segments(raw []byte) [][]byte {
	if c.net.Segments == 0 || len(raw) < 2 {
		return [][]byte{raw}
	}
	h := fnv.New64a()
	h.Write(raw)
	x := h.Sum64() ^ c.net.Seed
	next := func(n int) int {
		x ^= x << 13
		x ^= x >> 7
		x ^= x << 17
		return int(x % uint64(n))
	}
	var out [][]byte
	switch c.net.Segments {
	case 1:
		k := 1 + next(3)
		rest := raw
		for i := 0; i < k && len(rest) > 1; i++ {
			cut := 1 + next(len(rest)-1)
			out = append(out, rest[:cut])
			rest = rest[cut:]
		}
		out = append(out, rest)
	default:
		head := 1 + next(min(len(raw), 48))
		for i := 0; i < head; i++ {
			out = append(out, raw[i:i+1])
		}
		if head < len(raw) {
			out = append(out, raw[head:])
		}
	}
	return out
}

func (c *Conn) netDo(raw []byte) *Resp {
	res := &Resp{}
	if c.ns != nil && (c.ns.done || c.ns.phase > 0) {
		c.ns = nil
	}
	if c.ns == nil {
		c.netOpen()
	}
	ns := c.ns
	// bytes that arrived although nothing was asked
	if n := ns.br.Buffered() + ns.sc.out.pending(); n > 0 {
		res.Unsolicited = n
	}
	ns.tee.Reset()
	segs := c.segments(raw)
	if s := simrt.Current(); s != nil && s.Tracing() {
		fl := raw
		if i := bytes.IndexByte(fl, '\n'); i >= 0 {
			fl = fl[:i]
		}
		s.Logf("net: conn#%d sends %q in %d segments", c.Opened, fl, len(segs))
	}
	for i, sg := range segs {
		ns.sc.in.put(sg)
		if i < len(segs)-1 {
			if c.net.Pause > 0 && i < 3 {
				simrt.Sleep(c.net.Pause)
			} else {
				simrt.Yield(9106)
			}
		}
	}
	if s := simrt.Current(); s != nil && len(segs) > 1 {
		s.Count("fault_request_segmented")
	}
	head := bytes.HasPrefix(raw, []byte("HEAD "))
	status, hdr, body, closeAfter, err := readResponseLenient(ns.br, head)
	if ns.panicked != nil {
		p := ns.panicked
		c.ns = nil
		panic(p) // same contract as the direct transport: a handler panic surfaces in Do
	}
	all := ns.tee.Bytes()
	extra := ns.br.Buffered()
	if extra > len(all) {
		extra = len(all)
	}
	res.Raw = append([]byte(nil), all[:len(all)-extra]...)
	if err != nil {
		res.ReadErr = fmt.Errorf("no response: %w", err)
		c.ns = nil
		return res
	}
	res.Status = status
	res.Header = hdr
	res.Body = body
	if closeAfter {
		c.ns = nil
	}
	return res
}

// readResponseLenient reads one HTTP/1.x response the way a tolerant peer does: the header
// block is split at line ends and at the first colon of each line, nothing is validated
// (what a strict client makes of the bytes is the engines' business: Resp.ParseStrict).
// Interim 1xx responses are skipped.
func readResponseLenient(br *bufio.Reader, head bool) (status int, hdr map[string][]string, body []byte, closeAfter bool, err error) {
	for {
		var lines []string
		for {
			l, e := br.ReadString('\n')
			if e != nil {
				if len(lines) == 0 && l == "" {
					return 0, nil, nil, true, e
				}
				return 0, nil, nil, true, io.ErrUnexpectedEOF
			}
			l = strings.TrimRight(l, "\r\n")
			if l == "" {
				if len(lines) == 0 {
					continue // stray empty line before the status line
				}
				break
			}
			lines = append(lines, l)
			if len(lines) > 2000 {
				return 0, nil, nil, true, fmt.Errorf("header block too long")
			}
		}
		f := strings.Fields(lines[0])
		if len(f) < 2 || !strings.HasPrefix(f[0], "HTTP/") {
			return 0, nil, nil, true, fmt.Errorf("not a status line: %q", lines[0])
		}
		status, _ = strconv.Atoi(f[1])
		hdr = map[string][]string{}
		for _, l := range lines[1:] {
			k, v, ok := strings.Cut(l, ":")
			if !ok {
				continue
			}
			hdr[k] = append(hdr[k], strings.TrimSpace(v))
		}
		if status >= 100 && status < 200 {
			continue
		}
		break
	}
	get := func(name string) string {
		for k, v := range hdr {
			if strings.EqualFold(k, name) && len(v) > 0 {
				return v[len(v)-1]
			}
		}
		return ""
	}
	closeAfter = strings.EqualFold(get("Connection"), "close")
	switch {
	case head || status == 204 || status == 304:
	case strings.Contains(strings.ToLower(get("Transfer-Encoding")), "chunked"):
		for {
			l, e := br.ReadString('\n')
			if e != nil {
				return status, hdr, body, true, io.ErrUnexpectedEOF
			}
			n, perr := strconv.ParseInt(strings.TrimSpace(strings.SplitN(l, ";", 2)[0]), 16, 64)
			if perr != nil || n < 0 || n > 64<<20 {
				return status, hdr, body, true, fmt.Errorf("bad chunk size %q", l)
			}
			if n == 0 {
				for { // trailers
					t, e := br.ReadString('\n')
					if e != nil || strings.TrimRight(t, "\r\n") == "" {
						break
					}
				}
				break
			}
			chunk := make([]byte, n)
			if _, e := io.ReadFull(br, chunk); e != nil {
				return status, hdr, body, true, io.ErrUnexpectedEOF
			}
			body = append(body, chunk...)
			_, _ = br.ReadString('\n')
		}
	case get("Content-Length") != "":
		n, perr := strconv.ParseInt(get("Content-Length"), 10, 64)
		if perr != nil || n < 0 || n > 64<<20 {
			return status, hdr, body, true, fmt.Errorf("bad Content-Length %q", get("Content-Length"))
		}
		body = make([]byte, n)
		if _, e := io.ReadFull(br, body); e != nil {
			return status, hdr, body, true, io.ErrUnexpectedEOF
		}
	default:
		body, _ = io.ReadAll(br)
		closeAfter = true
	}
	return status, hdr, body, closeAfter, nil
}
