package harness

import (
	"bytes"
	"errors"
	"sort"
	"strings"
	"time"

	"verif.local/sim/simrt"
)

// ErrInjected is returned by injected storage / locker faults.
var ErrInjected = errors.New("injected fault")

// SimStorage is a fiber.Storage under the simulator's control: every call is
// a scheduling point before and after, values are copied in and out (or, on
// request, aliased the way some drivers do), TTLs run on the coarse clock
// like the in-repo storages, and each call can be made to fail.
type SimStorage struct {
	S     *simrt.Sim
	Name  string
	data  map[string]simEntry
	Alias bool // hand out the stored slice itself
	// HideSizes keeps value lengths out of the trace (gob output of a map varies
	// in length with Go's map order, which would break exact replay of the log)
	HideSizes bool
	FailGet   int // permille
	FailSet   int
	FailDel   int
	// OnFault is called when a call is made to fail (op: get/set/del).
	OnFault func(op string)
	// OnOp is called (with the token) after every mutation, for invariants.
	OnOp func(op, key string)
	// KeyOracle, if set, is the oracle id reported when a key handed to Set later
	// reads differently (a zero-copy view of a recycled request buffer). The
	// storage itself always keeps private copies, so its own behaviour stays
	// deterministic either way.
	KeyOracle string
	// ValOracle, likewise, for the values handed to Set: a storage is free to keep the slice it was given
	// (the in-tree memory storage does), so it must not be a view of a buffer that is written again
	ValOracle   string
	handedVals  []guardedVal
	valFailed   bool
	handedKeys  []guardedKey
	keyFailed   bool
	expiredGets []expiredGet
	DeletedKeys []string
	// Delay is extra simulated time per call.
	DelayPermille int
	Delays        []time.Duration
	Ops           int
}

type expiredGet struct {
	key string
	seq uint64
	// earlier: the record "<k>_body" had an earlier expiry than the record "<k>" that was still alive
	earlier bool
}

// ExpiredGetBetween reports whether a Get of key path_suffix found an entry
// with a non-empty value that had expired, within the given event window.
func (st *SimStorage) ExpiredGetBetween(suffix, path string, from, to uint64) bool {
	found, _ := st.ExpiredGetBetween2(suffix, path, from, to)
	return found
}

// ExpiredGetBetween2 also reports whether the expired "<k>_body" record had been given an earlier
// expiry than its still-living companion record "<k>".
func (st *SimStorage) ExpiredGetBetween2(suffix, path string, from, to uint64) (found, earlier bool) {
	for _, g := range st.expiredGets {
		if g.key == path+"_"+suffix && g.seq >= from && g.seq <= to {
			return true, g.earlier
		}
	}
	return false, false
}

type simEntry struct {
	val []byte
	exp uint32 // coarse-clock second at which the entry is gone; 0 = never
}

func NewSimStorage(s *simrt.Sim, name string) *SimStorage {
	return &SimStorage{S: s, Name: name, data: map[string]simEntry{}}
}

func (st *SimStorage) sz(n int) int {
	if st.HideSizes {
		return -1
	}
	return n
}

type guardedVal struct {
	key  string
	orig []byte
	copy []byte
}

// CheckVals compares every value handed to Set with the copy taken at that moment.
func (st *SimStorage) CheckVals() {
	if st.ValOracle == "" || st.valFailed {
		return
	}
	for _, v := range st.handedVals {
		if !bytes.Equal(v.orig, v.copy) {
			st.valFailed = true
			st.S.Fail(st.ValOracle, "the %d bytes handed to Storage.Set for key %q no longer read the same: the slice is a view of a buffer that was written again, a storage that keeps the slice it is given now holds other content", len(v.copy), v.key)
			return
		}
	}
}

func (st *SimStorage) checkKeys() {
	st.CheckVals()
	if st.KeyOracle == "" || st.keyFailed {
		return
	}
	for _, k := range st.handedKeys {
		if k.orig != k.copy {
			st.keyFailed = true
			st.S.Fail(st.KeyOracle, "the key %q handed to Storage.Set no longer reads the same: it is a zero-copy view of a recycled request buffer, a storage that keeps its keys loses or mixes the entries", k.copy)
			return
		}
	}
}

func (st *SimStorage) pre(op, key string) {
	st.Ops++
	st.checkKeys()
	simrt.Yield(100)
	if st.DelayPermille > 0 && len(st.Delays) > 0 && st.S.Chance(st.DelayPermille) {
		d := st.Delays[st.S.Draw(len(st.Delays))]
		st.S.Count("fault_storage_delay")
		simrt.Sleep(d)
	}
}

func (st *SimStorage) Get(key string) ([]byte, error) {
	st.pre("get", key)
	defer simrt.Yield(101)
	if st.FailGet > 0 && st.S.Chance(st.FailGet) {
		st.S.Count("fault_storage_get_error")
		if st.OnFault != nil {
			st.OnFault("get")
		}
		st.S.Logf("%s GET %q -> injected error", st.Name, key)
		return nil, ErrInjected
	}
	if key == "" {
		return nil, nil
	}
	e, ok := st.data[key]
	if !ok || (e.exp != 0 && e.exp <= CoarseNow()) {
		if ok && len(e.val) > 0 {
			earlier := false
			if base, isBody := strings.CutSuffix(key, "_body"); isBody {
				if m, ok := st.data[base]; ok && (m.exp == 0 || m.exp > e.exp) {
					earlier = true
				}
			}
			st.expiredGets = append(st.expiredGets, expiredGet{key, st.S.Stamp(), earlier})
		}
		if st.S.Tracing() {
			st.S.Logf("%s GET %q -> none", st.Name, key)
		}
		return nil, nil
	}
	if st.S.Tracing() {
		st.S.Logf("%s GET %q -> %d bytes", st.Name, key, st.sz(len(e.val)))
	}
	if st.Alias {
		return e.val, nil
	}
	return append([]byte(nil), e.val...), nil
}

func (st *SimStorage) Set(key string, val []byte, exp time.Duration) error {
	st.pre("set", key)
	defer simrt.Yield(102)
	if st.FailSet > 0 && st.S.Chance(st.FailSet) {
		st.S.Count("fault_storage_set_error")
		if st.OnFault != nil {
			st.OnFault("set")
		}
		st.S.Logf("%s SET %q -> injected error", st.Name, key)
		return ErrInjected
	}
	if key == "" || len(val) == 0 {
		return nil
	}
	var e simEntry
	if exp != 0 {
		e.exp = uint32(exp.Seconds()) + CoarseNow()
	}
	if st.Alias {
		e.val = val
	} else {
		e.val = append([]byte(nil), val...)
	}
	if st.ValOracle != "" && len(st.handedVals) < 256 {
		st.handedVals = append(st.handedVals, guardedVal{key: strings.Clone(key), orig: val, copy: append([]byte(nil), val...)})
	}
	if st.KeyOracle != "" && len(st.handedKeys) < 256 {
		st.handedKeys = append(st.handedKeys, guardedKey{orig: key, copy: strings.Clone(key)})
	}
	key = strings.Clone(key)
	st.data[key] = e
	if st.S.Tracing() {
		st.S.Logf("%s SET %q %d bytes ttl=%v", st.Name, key, st.sz(len(val)), exp)
	}
	if st.OnOp != nil {
		st.OnOp("set", key)
	}
	return nil
}

func (st *SimStorage) Delete(key string) error {
	st.pre("del", key)
	defer simrt.Yield(103)
	if st.FailDel > 0 && st.S.Chance(st.FailDel) {
		st.S.Count("fault_storage_delete_error")
		if st.OnFault != nil {
			st.OnFault("del")
		}
		st.S.Logf("%s DEL %q -> injected error", st.Name, key)
		return ErrInjected
	}
	if _, ok := st.data[key]; ok {
		st.DeletedKeys = append(st.DeletedKeys, key)
	}
	delete(st.data, key)
	if st.S.Tracing() {
		st.S.Logf("%s DEL %q", st.Name, key)
	}
	if st.OnOp != nil {
		st.OnOp("del", key)
	}
	return nil
}

func (st *SimStorage) Reset() error {
	st.pre("reset", "")
	defer simrt.Yield(104)
	st.data = map[string]simEntry{}
	if st.OnOp != nil {
		st.OnOp("reset", "")
	}
	return nil
}

func (st *SimStorage) Close() error { return nil }

// Live returns the unexpired entries (no scheduling point; for oracles).
func (st *SimStorage) Live() map[string][]byte {
	out := map[string][]byte{}
	now := CoarseNow()
	for k, e := range st.data {
		if e.exp == 0 || e.exp > now {
			out[k] = e.val
		}
	}
	return out
}

// Keys returns all stored keys, sorted (including expired, not yet collected).
func (st *SimStorage) Keys() []string {
	ks := make([]string, 0, len(st.data))
	for k := range st.data {
		ks = append(ks, k)
	}
	sort.Strings(ks)
	return ks
}

// Raw returns the stored bytes of a key regardless of expiry.
func (st *SimStorage) Raw(key string) ([]byte, bool) {
	e, ok := st.data[key]
	return e.val, ok
}

// Corrupt overwrites the stored value of a key (fault: flipped stored byte).
func (st *SimStorage) Corrupt(key string, val []byte) {
	if e, ok := st.data[key]; ok {
		e.val = val
		st.data[key] = e
	}
}
