package harness

import (
	"bufio"
	"bytes"
	"fmt"
	"net"
	"net/http"
	"sort"
	"strings"

	"github.com/gofiber/fiber/v3"
	"github.com/valyala/fasthttp"
)

// Conn plays the part of one keep-alive connection of fasthttp's server: it
// owns one RequestCtx, refills it from raw request bytes for every request
// and calls the application's handler directly (fasthttp's accept loop and
// worker pool are stubbed, its request/response codecs are real).
type Conn struct {
	App     *fiber.App
	Ctx     *fasthttp.RequestCtx
	handler fasthttp.RequestHandler
	N       int
	MaxBody int
	Opened  int // connections opened so far (real connection loop only)
	// BeforeHandler, if set, runs on the parsed request just before the application's handler (direct
	// transport only): a way to hand the application header bytes that no HTTP parser would let through
	BeforeHandler func(ctx *fasthttp.RequestCtx)
	net           NetOptions
	ns            *netState
	remote        net.Addr
}

// Resp is what came back on the wire.
type Resp struct {
	Status  int
	Header  map[string][]string // canonical names as sent
	Body    []byte
	Raw     []byte
	ReadErr error // request could not be parsed (went to the server error handler)
	// Unsolicited: bytes the server had sent although no request was outstanding (real connection loop only)
	Unsolicited int
}

func (r *Resp) Get(name string) string {
	if v := r.Header[name]; len(v) > 0 {
		return v[0]
	}
	return ""
}

// Values returns all values of a header, matching the name case-insensitively (names
// are kept as sent; with DisableHeaderNormalizing they need not be canonical).
func (r *Resp) Values(name string) []string {
	if v, ok := r.Header[name]; ok {
		return v
	}
	var ks []string
	for k := range r.Header {
		if strings.EqualFold(k, name) {
			ks = append(ks, k)
		}
	}
	sort.Strings(ks)
	var out []string
	for _, k := range ks {
		out = append(out, r.Header[k]...)
	}
	return out
}

// GetFold is Get with a case-insensitive name.
func (r *Resp) GetFold(name string) string {
	if v := r.Values(name); len(v) > 0 {
		return v[0]
	}
	return ""
}

// HeaderString is a canonical rendering without Date.
func (r *Resp) HeaderString() string {
	var names []string
	for k := range r.Header {
		if k == "Date" {
			continue
		}
		names = append(names, k)
	}
	sort.Strings(names)
	var b strings.Builder
	for _, k := range names {
		for _, v := range r.Header[k] {
			fmt.Fprintf(&b, "%s: %s\n", k, v)
		}
	}
	return b.String()
}

func NewConn(app *fiber.App, remote string) *Conn {
	c := &Conn{App: app, Ctx: &fasthttp.RequestCtx{}, handler: app.Handler(), MaxBody: 4 << 20}
	addr := &net.TCPAddr{IP: net.ParseIP(remote), Port: 40000}
	var empty fasthttp.Request
	c.Ctx.Init(&empty, addr, nil)
	c.net, c.remote = netOpt, addr
	return c
}

// RemoteIP is the peer address the connection was opened with.
func (c *Conn) RemoteIP() string {
	if t, ok := c.remote.(*net.TCPAddr); ok {
		return t.IP.String()
	}
	return "0.0.0.0"
}

// Do serves one request given as raw bytes.
func (c *Conn) Do(raw []byte) *Resp {
	if c.net.Enabled {
		c.N++
		return c.netDo(raw)
	}
	ctx := c.Ctx
	c.N++
	ctx.ResetUserValues()
	ctx.Request.Reset()
	ctx.Response.Reset()
	br := bufio.NewReaderSize(bytes.NewReader(raw), 4096)
	res := &Resp{}
	// per-request server settings that fasthttp's connection loop applies (exported ones)
	srv := c.App.Server()
	if srv.DisableHeaderNamesNormalizing {
		ctx.Request.Header.DisableNormalizing()
		ctx.Response.Header.DisableNormalizing()
	}
	if srv.Name != "" {
		ctx.Response.Header.SetServer(srv.Name)
	}
	if err := ctx.Request.ReadLimitBody(br, c.MaxBody); err != nil {
		res.ReadErr = err
		ctx.Response.Reset()
		if eh := c.App.Server().ErrorHandler; eh != nil {
			eh(ctx, err)
		} else {
			ctx.Response.SetStatusCode(fasthttp.StatusBadRequest)
		}
	} else {
		if c.BeforeHandler != nil {
			c.BeforeHandler(ctx)
		}
		c.handler(ctx)
	}
	if ctx.IsHead() {
		ctx.Response.SkipBody = true
	}
	if srv.Name != "" && len(ctx.Response.Header.Server()) == 0 {
		ctx.Response.Header.SetServer(srv.Name)
	}
	var out bytes.Buffer
	bw := bufio.NewWriter(&out)
	if err := ctx.Response.Write(bw); err != nil {
		res.ReadErr = fmt.Errorf("response write: %w", err)
	}
	_ = bw.Flush()
	res.Raw = out.Bytes()
	res.Status = ctx.Response.StatusCode()
	res.Header = map[string][]string{}
	ctx.Response.Header.VisitAll(func(k, v []byte) {
		res.Header[string(k)] = append(res.Header[string(k)], string(v))
	})
	res.Body = append([]byte(nil), ctx.Response.Body()...)
	return res
}

// ParseStrict parses the raw response with net/http, an independent and
// stricter parser.
func (r *Resp) ParseStrict(method string) (*http.Response, error) {
	req, _ := http.NewRequest(method, "http://example.com/", nil)
	return http.ReadResponse(bufio.NewReader(bytes.NewReader(r.Raw)), req)
}

// Req builds raw HTTP/1.1 request bytes.
type Req struct {
	Method  string
	Path    string
	Host    string
	Headers [][2]string
	Body    []byte
}

func (r Req) Bytes() []byte {
	var b bytes.Buffer
	m := r.Method
	if m == "" {
		m = "GET"
	}
	host := r.Host
	if host == "" {
		host = "example.com"
	}
	fmt.Fprintf(&b, "%s %s HTTP/1.1\r\nHost: %s\r\n", m, r.Path, host)
	for _, h := range r.Headers {
		fmt.Fprintf(&b, "%s: %s\r\n", h[0], h[1])
	}
	if len(r.Body) > 0 || m == "POST" || m == "PUT" || m == "PATCH" {
		fmt.Fprintf(&b, "Content-Length: %d\r\n", len(r.Body))
	}
	b.WriteString("\r\n")
	b.Write(r.Body)
	return b.Bytes()
}
