package harness

import (
	"strings"
	"time"

	"github.com/gofiber/fiber/v3"

	"verif.local/sim/simrt"
)

// KeyGuard wraps a storage: the inner storage always receives a private copy
// of the key (so that a zero-copy key cannot corrupt the storage's map, whose
// consequences depend on Go's per-map hash seed and would not replay), and
// the string that was actually handed over is remembered and compared with
// its copy later. A Go string must never change; a key that does is a view
// of a recycled request buffer, and a storage that keeps its keys (like the
// in-repo memory storage) would lose or mix the entries.
type KeyGuard struct {
	S      *simrt.Sim
	Inner  fiber.Storage
	Oracle string
	seen   []guardedKey
	failed bool
}

type guardedKey struct {
	orig string // as handed over (possibly a view of a request buffer)
	copy string
}

func NewKeyGuard(s *simrt.Sim, inner fiber.Storage, oracle string) *KeyGuard {
	return &KeyGuard{S: s, Inner: inner, Oracle: oracle}
}

func (g *KeyGuard) Get(key string) ([]byte, error) { return g.Inner.Get(strings.Clone(key)) }

func (g *KeyGuard) Set(key string, val []byte, exp time.Duration) error {
	if len(g.seen) < 256 {
		g.seen = append(g.seen, guardedKey{orig: key, copy: strings.Clone(key)})
	}
	return g.Inner.Set(strings.Clone(key), val, exp)
}

func (g *KeyGuard) Delete(key string) error { return g.Inner.Delete(strings.Clone(key)) }
func (g *KeyGuard) Reset() error            { return g.Inner.Reset() }
func (g *KeyGuard) Close() error            { return g.Inner.Close() }

// Check compares every key handed to Set with the copy taken at that moment.
func (g *KeyGuard) Check(after string) {
	if g.failed {
		return
	}
	for _, k := range g.seen {
		if k.orig != k.copy {
			g.failed = true
			g.S.Fail(g.Oracle, "the key %q handed to Storage.Set no longer reads the same %s: it is a zero-copy view of a recycled request buffer, a storage that keeps its keys loses or mixes the entries", k.copy, after)
			return
		}
	}
}
