module verif.local/sim

go 1.26.0

require (
	github.com/anishathalye/porcupine v1.3.0
	github.com/gofiber/fiber/v3 v3.0.0-00010101000000-000000000000
	golang.org/x/tools v0.50.0
)

require (
	golang.org/x/mod v0.41.0 // indirect
	golang.org/x/sync v0.23.0 // indirect
)

replace github.com/gofiber/fiber/v3 => /repo
